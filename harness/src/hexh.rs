//! Bounded-exhaustive exploration of *histories* (not states): every operation sequence up to a given depth over
//! a tiny universe, lookups included as operations. The state-based exploration of `gen.rs` rebuilds every
//! abstract state by one path and cannot see state that the abstraction does not show (a cached hint, a
//! memoised position, a counter); a history-based one reaches every such hidden state that a short history
//! can produce. Histories are executed on the real collection only and compared with a tiny reference map;
//! the shortest failing history found is then replayed through the ordinary `Runner`, so that it is recorded,
//! attributed, shrunk and replayed like every other oracle failure.
use crate::colls::*;
use crate::keys::*;
use crate::run::*;
use std::collections::BTreeMap;
use std::sync::atomic::{AtomicBool, AtomicU64, Ordering};
use std::sync::Mutex;

/// set in the crash-locating re-run (`VERIF_FLUSH`): every leaf history is announced operation by operation
static FLUSH_LEAVES: AtomicBool = AtomicBool::new(false);

#[derive(Clone, Copy, Debug, PartialEq, Eq)]
enum A {
    Ins(i64),       // map / set: insert key (value chosen from the step index)
    Del(i64),
    Get(i64),
    Pred(i64),      // predecessor handle of the probe, then a read through it
    DelPred(i64),   // predecessor handle of the probe, then delete through it
    SetPred(i64),   // predecessor handle of the probe, then a write through it
    Walk,           // set only: neighbour steps from the greatest entry down to the sentinel
    Clear,
    KIns(i64, i64), // expiring: key, lifetime (expiration = now + lifetime)
    KGet(i64),
    KFle(i64),
    KFl(i64),
    Tick,
}

fn alphabet(coll: &str, keys: i64, extended: bool) -> Vec<A> {
    let mut v = Vec::new();
    match coll {
        "key" | "klist" => {
            for k in 1..=keys { v.push(A::KIns(k, 1)); v.push(A::KIns(k, 2)); }
            for k in 1..=keys { v.push(A::KGet(k)); }
            v.push(A::KFle(keys)); v.push(A::KFl(keys));
            v.push(A::Tick);
            v.push(A::Clear);
        }
        _ => {
            for k in 1..=keys { v.push(A::Ins(k)); }
            for k in 1..=keys { v.push(A::Del(k)); }
            for k in 1..=keys { v.push(A::Get(k)); }
            v.push(A::Pred(keys));
            if extended { v.push(A::DelPred(keys)); v.push(A::SetPred(keys - 1)); }
            if coll == "set" || coll == "slist" { v.push(A::Walk); }
            v.push(A::Clear);
        }
    }
    v
}

/// reference state: key -> (expiration, value); for the plain collections the expiration is unused
struct Ref { m: BTreeMap<i64, (i64, i64)>, t: i64, expiring: bool }
impl Ref {
    fn live(&self, k: i64) -> Option<i64> { self.m.get(&k).filter(|x| !self.expiring || x.0 > self.t).map(|x| x.1) }
    fn pred(&self, k: i64, strict: bool) -> Option<i64> {
        self.m.iter().rev().filter(|(kk, x)| (if strict { **kk < k } else { **kk <= k }) && (!self.expiring || x.0 > self.t)).map(|(_, x)| x.1).next()
    }
}

fn s(v: Option<i64>) -> String { match v { Some(x) => x.to_string(), None => "none".into() } }

/// run one history on a fresh instance; `Some((index, expected, observed))` at the first wrong answer.
/// `ops_out` receives the text operations actually applied (for the replay through the Runner).
fn run_history_announced(coll: &str, cap: usize, hist: &[A], ops: &mut Vec<(Op, Option<i64>)>) {
    ANNOUNCE.with(|a| a.set(true));
    let _ = run_history(coll, cap, hist, Some(ops));
    ANNOUNCE.with(|a| a.set(false));
}

thread_local! { static ANNOUNCE: std::cell::Cell<bool> = std::cell::Cell::new(false); }

fn run_history(coll: &str, cap: usize, hist: &[A], ops_out: Option<&mut Vec<(Op, Option<i64>)>>) -> Option<(usize, String, String)> {
    let expiring = coll == "key" || coll == "klist";
    let mut c = make(coll, cap, 1);
    let mut r = Ref { m: BTreeMap::new(), t: 0, expiring };
    let mut rec: Vec<(Op, Option<i64>)> = Vec::new();
    let mut bad: Option<(usize, String, String)> = None;
    for (i, a) in hist.iter().enumerate() {
        let val = 100 * (i as i64 + 1);
        let mut chk = |op: Op, ek: Option<i64>, c: &mut Box<dyn Coll>, rec: &mut Vec<(Op, Option<i64>)>, expect: Option<String>| -> String {
            if ANNOUNCE.with(|a| a.get()) { eprintln!("@op {}", op.text()); }
            let o = c.apply(&op);
            rec.push((op, ek));
            if let Some(e) = expect { if e != o && bad.is_none() { bad = Some((i, e, o.clone())); } }
            o
        };
        match *a {
            A::Ins(k) => { let v = val + k; chk(Op::new("insert", &[k, v]), None, &mut c, &mut rec, None); r.m.insert(k, (0, v)); }
            A::Del(k) => { chk(Op::new("delete", &[k]), None, &mut c, &mut rec, None); r.m.remove(&k); }
            A::Get(k) => { chk(Op::new("get", &[k]), None, &mut c, &mut rec, Some(s(r.live(k)))); }
            A::Pred(k) => {
                let h = chk(Op::new("fil", &[k]), None, &mut c, &mut rec, None);
                let e = r.pred(k, false);
                match (h.parse::<i64>().ok(), e) {
                    (Some(h), Some(ev)) => { let pk = *r.m.range(..=k).next_back().unwrap().0; chk(Op::new("validx", &[h]), Some(pk), &mut c, &mut rec, Some(ev.to_string())); }
                    (None, None) => {}
                    (hh, ee) => { if bad.is_none() { bad = Some((i, format!("handle of {:?}", ee), format!("{:?}", hh))); } }
                }
            }
            A::DelPred(k) | A::SetPred(k) => {
                let h = chk(Op::new("fil", &[k]), None, &mut c, &mut rec, None);
                let pk = r.m.range(..=k).next_back().map(|x| *x.0);
                match (h.parse::<i64>().ok(), pk) {
                    (Some(h), Some(pk)) => {
                        if matches!(*a, A::DelPred(_)) { chk(Op::new("delidx", &[h]), Some(pk), &mut c, &mut rec, None); r.m.remove(&pk); }
                        else { chk(Op::new("setidx", &[h, val]), Some(pk), &mut c, &mut rec, None); r.m.insert(pk, (0, val)); }
                    }
                    (None, None) => {}
                    (hh, ee) => { if bad.is_none() { bad = Some((i, format!("handle of {:?}", ee), format!("{:?}", hh))); } }
                }
            }
            A::Walk => {
                let mut h = chk(Op::new("fil", &[1000]), None, &mut c, &mut rec, None);
                let exp: Vec<(i64, i64)> = r.m.iter().rev().map(|(k, x)| (*k, x.1)).collect();
                let mut j = 0;
                while let Ok(hh) = h.parse::<i64>() {
                    if j >= exp.len() { if bad.is_none() { bad = Some((i, "end of walk".into(), format!("handle {}", hh))); } break; }
                    chk(Op::new("validx", &[hh]), Some(exp[j].0), &mut c, &mut rec, Some(exp[j].1.to_string()));
                    h = chk(Op::new("before", &[hh]), Some(exp[j].0), &mut c, &mut rec, None);
                    j += 1;
                    if j > 8 { break; }
                }
                if j < exp.len() && bad.is_none() { bad = Some((i, format!("{} entries walked", exp.len()), format!("{}", j))); }
            }
            A::Clear => { chk(Op::new("clear", &[]), None, &mut c, &mut rec, None); r.m.clear(); }
            A::KIns(k, life) => { let v = val + k; chk(Op::new("insert", &[k, r.t + life, v, r.t]), None, &mut c, &mut rec, None); r.m.insert(k, (r.t + life, v)); }
            A::KGet(k) => { chk(Op::new("get", &[r.t, k]), None, &mut c, &mut rec, Some(s(r.live(k)))); }
            A::KFle(k) => { chk(Op::new("fle", &[r.t, k]), None, &mut c, &mut rec, Some(s(r.pred(k, false)))); }
            A::KFl(k) => { chk(Op::new("fl", &[r.t, k]), None, &mut c, &mut rec, Some(s(r.pred(k, true)))); }
            A::Tick => { r.t += 1; }
        }
        if bad.is_some() { break; }
    }
    if let Some(o) = ops_out { *o = rec; }
    bad
}

fn allowed(r_keys: &BTreeMap<i64, i64>, t: i64, expiring: bool, a: A, prev: Option<A>) -> bool {
    match a {
        A::Ins(k) => !r_keys.contains_key(&k),
        A::KIns(k, _) => r_keys.get(&k).map_or(true, |e| *e <= t),
        // the same lookup twice in a row adds nothing the single one does not show
        A::Get(_) | A::KGet(_) | A::Pred(_) | A::Walk | A::KFle(_) | A::KFl(_) => prev != Some(a),
        A::Tick => expiring,
        _ => true,
    }
}

/// DFS over all histories of exactly `depth` operations with the given prefix fixed
fn dfs(coll: &str, cap: usize, alpha: &[A], hist: &mut Vec<A>, keys: &mut BTreeMap<i64, i64>, t: i64, depth: usize,
       found: &Mutex<Option<Vec<A>>>, stop: &AtomicBool, count: &AtomicU64) {
    if stop.load(Ordering::Relaxed) { return; }
    let expiring = coll == "key" || coll == "klist";
    if hist.len() == depth {
        count.fetch_add(1, Ordering::Relaxed);
        progress();
        if FLUSH_LEAVES.load(Ordering::Relaxed) {
            // crash-locating re-run: announce the history before running it (an abort of the real code is not
            // catchable). The operations are reproduced on a scratch instance of the *reference* only.
            eprintln!("@new hexh-{} {} 1 {}", coll, coll, cap);
            eprintln!("# hexh {}", hist.iter().map(|a| format!("{:?}", a)).collect::<Vec<_>>().join(" "));
            let mut ops = Vec::new();
            let _ = std::panic::catch_unwind(std::panic::AssertUnwindSafe(|| run_history_announced(coll, cap, hist, &mut ops)));
            return;
        }
        let res = std::panic::catch_unwind(|| run_history(coll, cap, hist, None));
        let failed = match res { Ok(None) => false, _ => true };
        if failed {
            let mut f = found.lock().unwrap();
            if f.is_none() { *f = Some(hist.clone()); }
            stop.store(true, Ordering::Relaxed);
        }
        return;
    }
    // a history ending in a lookup-free tail shows nothing new at its end: the last operation is a lookup
    let last = hist.len() + 1 == depth;
    for &a in alpha {
        if !allowed(keys, t, expiring, a, hist.last().copied()) { continue; }
        if last && !matches!(a, A::Get(_) | A::KGet(_) | A::Pred(_) | A::Walk | A::KFle(_) | A::KFl(_)) { continue; }
        let saved = keys.clone();
        let mut t2 = t;
        match a {
            A::Ins(k) => { keys.insert(k, 0); }
            A::Del(k) => { keys.remove(&k); }
            A::DelPred(k) => { if let Some(pk) = keys.range(..=k).next_back().map(|x| *x.0) { keys.remove(&pk); } }
            A::Clear => { keys.clear(); }
            A::KIns(k, life) => { keys.insert(k, t + life); }
            A::Tick => { t2 += 1; }
            _ => {}
        }
        hist.push(a);
        dfs(coll, cap, alpha, hist, keys, t2, depth, found, stop, count);
        hist.pop();
        *keys = saved;
    }
}

/// all histories of length 1..=depth; returns (histories executed, failing history replayed through the Runner?)
pub fn history_exhaustive(out: &mut Out, coll: &str, keys: i64, depth: usize, cap: usize, extended: bool) -> (u64, bool) {
    let alpha = alphabet(coll, keys, extended);
    let count = AtomicU64::new(0);
    let found: Mutex<Option<Vec<A>>> = Mutex::new(None);
    let expiring = coll == "key" || coll == "klist";
    let dir = out.dir.clone();
    let tag = format!("hexh-{}{}", coll, if extended { "x" } else { "" });
    let flush_mode = std::env::var("VERIF_FLUSH").is_ok();
    // crash-locating re-run: only the work items the threads of the first run were in when the process died
    let mut only: Vec<(usize, usize)> = Vec::new();
    if flush_mode {
        for th in 0..16 {
            if let Ok(txt) = std::fs::read_to_string(format!("{}/{}-{}.cur", dir, tag, th)) {
                let v: Vec<usize> = txt.split_whitespace().filter_map(|x| x.parse().ok()).collect();
                if v.len() == 2 { only.push((v[0], v[1])); }
            }
        }
        if only.is_empty() { return (0, false); }
        FLUSH_LEAVES.store(true, Ordering::Relaxed);
    }
    for d in 1..=depth {
        let stop = AtomicBool::new(false);
        // parallel over the first two operations
        let mut prefixes: Vec<Vec<A>> = Vec::new();
        for &a in &alpha {
            if !allowed(&BTreeMap::new(), 0, expiring, a, None) { continue; }
            if d == 1 { prefixes.push(vec![a]); continue; }
            for &b in &alpha { prefixes.push(vec![a, b]); }
        }
        let next = AtomicU64::new(0);
        std::thread::scope(|sc| {
            for th in 0..(if flush_mode { 1 } else { 16 }) {
                let (next, stop, found, count, prefixes, alpha, only, dir, tag) = (&next, &stop, &found, &count, &prefixes, &alpha, &only, &dir, &tag);
                sc.spawn(move || {
                    silent_panics();
                    loop {
                        let i = next.fetch_add(1, Ordering::Relaxed) as usize;
                        if i >= prefixes.len() || stop.load(Ordering::Relaxed) { break; }
                        if flush_mode { if !only.contains(&(d, i)) { continue; } }
                        else { let _ = std::fs::write(format!("{}/{}-{}.cur", dir, tag, th), format!("{} {}", d, i)); }
                        let p = &prefixes[i];
                        // replay the prefix on the key bookkeeping, rejecting out-of-contract prefixes
                        let mut ks: BTreeMap<i64, i64> = BTreeMap::new();
                        let mut t = 0i64;
                        let mut ok = true;
                        let mut h: Vec<A> = Vec::new();
                        for &a in p {
                            if !allowed(&ks, t, expiring, a, h.last().copied()) { ok = false; break; }
                            match a {
                                A::Ins(k) => { ks.insert(k, 0); }
                                A::Del(k) => { ks.remove(&k); }
                                A::DelPred(k) => { if let Some(pk) = ks.range(..=k).next_back().map(|x| *x.0) { ks.remove(&pk); } }
                                A::Clear => { ks.clear(); }
                                A::KIns(k, life) => { ks.insert(k, t + life); }
                                A::Tick => { t += 1; }
                                _ => {}
                            }
                            h.push(a);
                        }
                        if !ok || h.len() > d { continue; }
                        if h.len() == d && !matches!(h[d - 1], A::Get(_) | A::KGet(_) | A::Pred(_) | A::Walk | A::KFle(_) | A::KFl(_)) { continue; }
                        dfs(coll, cap, alpha, &mut h, &mut ks, t, d, found, stop, count);
                    }
                });
            }
        });
        if found.lock().unwrap().is_some() { break; }
    }
    if flush_mode { FLUSH_LEAVES.store(false, Ordering::Relaxed); return (count.load(Ordering::Relaxed), false); }
    for th in 0..16 { let _ = std::fs::remove_file(format!("{}/{}-{}.cur", dir, tag, th)); }
    let n = count.load(Ordering::Relaxed);
    let f = found.lock().unwrap().clone();
    if let Some(h) = f {
        // replay through the ordinary runner: recorded, attributed to the right property, shrunk, replayable
        let mut ops: Vec<(Op, Option<i64>)> = Vec::new();
        let res = std::panic::catch_unwind(std::panic::AssertUnwindSafe(|| { let mut o = Vec::new(); let b = run_history(coll, cap, &h, Some(&mut o)); (o, b) }));
        let (bad, panicked) = match res { Ok((o, b)) => { ops = o; (b, false) } Err(_) => (None, true) };
        let before = out.oracle_fails;
        let mut r = Runner::new(out, &format!("hexh-{}", coll), coll, cap, 1);
        r.oracles = true;
        for (op, ek) in ops.iter() {
            r.step(op, *ek);
            if r.dead { break; }
        }
        if r.out.oracle_fails == before {
            // the runner's own oracles did not object (they look at other things): record what was seen here
            let (e, o) = match bad { Some((_, e, o)) => (e, o), None => ("an answer".into(), if panicked { "panic".into() } else { "?".into() }) };
            let prop: &[&str] = match coll { "map" => &["C04"], "set" => &["C05"], "key" => &["C01", "C06"], _ => &["C13"] };
            r.fail(prop, "answer along a short history (bounded-exhaustive history exploration)", &e, &o);
        }
        r.end();
        return (n, true);
    }
    (n, false)
}

// ------------------------------------------------------------------------------------------------
// segment tree: every history of up to `depth` operations over a handful of ranges

#[derive(Clone, Copy, Debug, PartialEq, Eq)]
enum S {
    Ins(usize, i64),   // range index, lifetime (expiration = now + lifetime - 1: lifetime 1 = last visible now)
    Query(usize, i64), // range index, items to take (-1 = all)
    Tick,
    Clear,
}

fn seg_apply_all(lo: i64, hi: i64, ranges: &[(i64, i64)], hist: &[S], ops_out: Option<&mut Vec<Op>>) -> Option<(usize, String, String)> {
    use crate::seg::ref_scale;
    let mut c = SegC::new(lo, hi)?;
    let sc = ref_scale(lo, hi).unwrap_or(0);
    let bucket = |x: i64| -> i64 { (x - lo) >> sc };
    let mut vals: Vec<(i64, i64, i64, i64)> = Vec::new();
    let mut t = 0i64;
    let mut rec: Vec<Op> = Vec::new();
    let mut bad = None;
    for (i, a) in hist.iter().enumerate() {
        match *a {
            S::Ins(r, life) => {
                let (x, y) = ranges[r];
                let id = 100 * (i as i64 + 1) + r as i64;
                let op = Op::new("insert", &[x, y, id, t + life - 1]);
                c.apply(&op); rec.push(op);
                vals.push((x, y, id, t + life - 1));
            }
            S::Query(r, take) => {
                let (x, y) = ranges[r];
                let op = Op::new("query", &[x, y, t, take]);
                let o = c.apply(&op); rec.push(op);
                let mut exp: Vec<i64> = vals.iter().filter(|v| v.3 >= t && bucket(v.0) <= bucket(y) && bucket(x) <= bucket(v.1)).map(|v| v.2).collect();
                exp.sort();
                let mut got: Vec<i64> = o.trim_matches(|ch| ch == '[' || ch == ']').split(',').filter(|s| !s.is_empty()).filter_map(|s| s.parse().ok()).collect();
                got.sort();
                let ok = if take < 0 { got == exp } else {
                    // a partially consumed query: min(take, |expected|) distinct expected items
                    let mut g2 = got.clone(); g2.dedup();
                    g2.len() == got.len() && got.iter().all(|g| exp.contains(g)) && got.len() == exp.len().min(take as usize)
                };
                if !ok { bad = Some((i, format!("{:?}", exp), format!("{:?}", got))); }
                if take < 0 && x == lo && y == hi {
                    // C16: after a fully consumed whole-domain query nothing expired is stored any more
                    let stale = c.0.verif_chunks().iter().flatten().filter(|e| (e.0.exp as i64) < t).count();
                    if stale > 0 && bad.is_none() { bad = Some((i, "no stored copy with expiration below the query time".into(), format!("{} such copies", stale))); }
                    vals.retain(|v| v.3 >= t);
                }
            }
            S::Tick => { t += 1; }
            S::Clear => { let op = Op::new("clear", &[]); c.apply(&op); rec.push(op); vals.clear(); }
        }
        if bad.is_some() { break; }
    }
    if let Some(o) = ops_out { *o = rec; }
    bad
}

fn seg_dfs(lo: i64, hi: i64, ranges: &[(i64, i64)], alpha: &[S], hist: &mut Vec<S>, depth: usize, found: &Mutex<Option<Vec<S>>>, stop: &AtomicBool, count: &AtomicU64) {
    if stop.load(Ordering::Relaxed) { return; }
    if hist.len() == depth {
        count.fetch_add(1, Ordering::Relaxed);
        progress();
        let res = std::panic::catch_unwind(|| seg_apply_all(lo, hi, ranges, hist, None));
        if !matches!(res, Ok(None)) {
            let mut f = found.lock().unwrap();
            if f.is_none() { *f = Some(hist.clone()); }
            stop.store(true, Ordering::Relaxed);
        }
        return;
    }
    let last = hist.len() + 1 == depth;
    for &a in alpha {
        if last && !matches!(a, S::Query(..)) { continue; }
        if matches!(a, S::Tick) && matches!(hist.last(), Some(S::Tick)) && hist.len() >= 2 && matches!(hist[hist.len() - 2], S::Tick) { continue; }
        hist.push(a);
        seg_dfs(lo, hi, ranges, alpha, hist, depth, found, stop, count);
        hist.pop();
    }
}

/// all histories of length 1..=depth on the segment tree over `[lo, hi]`; a failing one is replayed through the
/// ordinary `SegRunner` (C03 / C16 oracles, tie, shrinking, replay)
pub fn seg_history_exhaustive(out: &mut Out, lo: i64, hi: i64, ranges: &[(i64, i64)], depth: usize) -> (u64, bool) {
    let mut alpha: Vec<S> = Vec::new();
    for r in 0..ranges.len() { alpha.push(S::Ins(r, 1)); alpha.push(S::Ins(r, 3)); }
    for r in 0..ranges.len() { alpha.push(S::Query(r, -1)); }
    alpha.push(S::Query(0, 1));
    alpha.push(S::Tick);
    alpha.push(S::Clear);
    let count = AtomicU64::new(0);
    let found: Mutex<Option<Vec<S>>> = Mutex::new(None);
    for d in 1..=depth {
        let stop = AtomicBool::new(false);
        let mut prefixes: Vec<Vec<S>> = Vec::new();
        for &a in &alpha { if d == 1 { prefixes.push(vec![a]); } else { for &b in &alpha { prefixes.push(vec![a, b]); } } }
        let next = AtomicU64::new(0);
        std::thread::scope(|sc| {
            for _ in 0..16 {
                sc.spawn(|| {
                    silent_panics();
                    loop {
                        let i = next.fetch_add(1, Ordering::Relaxed) as usize;
                        if i >= prefixes.len() || stop.load(Ordering::Relaxed) { break; }
                        let mut h = prefixes[i].clone();
                        if h.len() == d && !matches!(h[d - 1], S::Query(..)) { continue; }
                        if h.len() > d { continue; }
                        seg_dfs(lo, hi, ranges, &alpha, &mut h, d, &found, &stop, &count);
                    }
                });
            }
        });
        if found.lock().unwrap().is_some() { break; }
    }
    let n = count.load(Ordering::Relaxed);
    let f = found.lock().unwrap().clone();
    if let Some(h) = f {
        let mut ops: Vec<Op> = Vec::new();
        let res = std::panic::catch_unwind(std::panic::AssertUnwindSafe(|| { let mut o = Vec::new(); let b = seg_apply_all(lo, hi, ranges, &h, Some(&mut o)); (o, b) }));
        let bad = match res { Ok((o, b)) => { ops = o; b } Err(_) => None };
        let before = out.oracle_fails;
        let mut r = crate::seg::SegRunner::new(out, "hexh-seg", lo, hi);
        for op in &ops { r.step(op); if r.dead { break; } }
        if r.out.oracle_fails == before {
            let (e, o) = match bad { Some((_, e, o)) => (e, o), None => ("an answer".into(), "panic".into()) };
            r.fail(&["C03", "C16"], "answer along a short history (bounded-exhaustive history exploration)", &e, &o);
        }
        r.end();
        return (n, true);
    }
    (n, false)
}
