//! itree-harness: runs the real iTree collections (built from /repo's working tree with the `verif`
//! feature), emits transitions for the Lean driver and evaluates independent oracles.
mod colls;
mod gen;
mod inject;
mod hexh;
mod fuzz;
mod keys;
mod oracle;
mod rng;
mod run;
mod seg;
mod snap;

use colls::Op;
use gen::*;
use rng::Rng;
use run::*;
use std::io::Write;

fn stats_json(out: &Out, extra: &[(String, String)]) -> String {
    let m = |m: &std::collections::BTreeMap<String, usize>| -> String {
        format!("{{{}}}", m.iter().map(|(k, v)| format!("\"{}\":{}", k, v)).collect::<Vec<_>>().join(","))
    };
    let sizes = format!("{{{}}}", out.size_hist.iter().map(|(k, v)| format!("\"ge{}\":{}", k, v)).collect::<Vec<_>>().join(","));
    let mut s = format!("{{\"lines\":{},\"histories\":{},\"oracle_failures\":{},\"max_entries\":{},\"op_counts\":{},\"oracle_evals\":{},\"tree_sizes\":{}",
        out.lines, out.next_hid, out.oracle_fails, out.max_entries, m(&out.op_counts), m(&out.oracle_evals), sizes);
    for (k, v) in extra { s.push_str(&format!(",\"{}\":{}", k, v)); }
    s.push('}');
    s
}

fn main() {
    let args: Vec<String> = std::env::args().collect();
    if args.len() < 3 { eprintln!("usage: itree-harness <suite> <outdir> [seed] [tier] [corpus]"); std::process::exit(2); }
    let suite = args[1].as_str();
    let outdir = args[2].as_str();
    let seed: u64 = args.get(3).and_then(|s| s.parse().ok()).unwrap_or(1);
    let thorough = args.get(4).map_or(false, |s| s == "thorough");
    let corpus_file = args.get(5).cloned().unwrap_or_default();
    silent_panics();
    // hang detection: generous for the suites (bulk phases bump the counter per operation), short for replays
    let wd: u64 = std::env::var("VERIF_WATCHDOG").ok().and_then(|v| v.parse().ok()).unwrap_or(if suite == "replay" { 6 } else { 20 });
    start_watchdog(wd);
    if suite == "replay" {
        // replay <file>: every line a history; prints outputs; oracle failures go to <outdir>/oracle.jsonl
        let mut out = Out::new(&format!("{}.replay", outdir));
        let n = corpus(&mut out, outdir);
        let mut r = Rng::new(0);
        let _ = &mut r;
        // seg histories
        if let Ok(text) = std::fs::read_to_string(outdir) {
            for line in text.lines() {
                if let Some((head, ops)) = line.split_once("::") {
                    if head.trim().starts_with("seg") {
                        let ops: Vec<Op> = ops.split(';').filter_map(|o| Op::parse(o.trim())).collect();
                        if let Some(first) = ops.first() {
                            if first.name == "new" {
                                let mut sr = seg::SegRunner::new(&mut out, "replay", first.a[0], first.a[1]);
                                let mut inj: Option<usize> = None;
                                for o in &ops[1..] {
                                    if o.name == "@inject" { inj = Some(o.a[0] as usize); continue; }
                                    if let Some(k) = inj.take() {
                                        // a panic injected at the k-th callback of this operation (C18)
                                        if !sr.step_injected(o, k) || o.name == "insert" { break; }
                                        continue;
                                    }
                                    sr.step(o);
                                }
                                sr.end();
                            } else if first.name == "masks" {
                                seg::seg_mask_table(&mut out);
                            }
                        }
                    }
                }
            }
        }
        out.finish();
        println!("replayed {} histories, {} transitions, {} oracle failures", n, out.lines, out.oracle_fails);
        let exp = std::fs::read_to_string(format!("{}.replay/exp.txt", outdir)).unwrap_or_default();
        let req = std::fs::read_to_string(format!("{}.replay/req.txt", outdir)).unwrap_or_default();
        for (r, e) in req.lines().zip(exp.lines()) {
            // (the state of a bulk-loaded tree is megabytes: the printout is cut)
            let cut: String = e.chars().take(1500).collect();
            println!("{}\n    -> {}{}", r.split('|').next().unwrap_or(""), cut, if cut.len() < e.len() { " …" } else { "" });
        }
        let orc = std::fs::read_to_string(format!("{}.replay/oracle.jsonl", outdir)).unwrap_or_default();
        for l in orc.lines() { println!("ORACLE-FAILURE {}", l); }
        let _ = std::fs::remove_dir_all(format!("{}.replay", outdir));
        std::process::exit(if out.oracle_fails > 0 { 1 } else { 0 });
    }
    // `arena-map` etc.: the same generators, but raw arena snapshots for the arena-level model
    let suite = if let Some(base) = suite.strip_prefix("arena-") { std::env::set_var("VERIF_ARENA", "1"); base } else { suite };
    let mut out = Out::new(outdir);
    let mut rng = Rng::new(seed);
    let mut extra: Vec<(String, String)> = Vec::new();
    if !corpus_file.is_empty() {
        let n = corpus(&mut out, &corpus_file);
        extra.push(("corpus_histories".into(), n.to_string()));
    }
    match suite {
        "map" | "set" | "mlist" | "slist" => {
            let u = if thorough { 7 } else { 5 };
            let (states, trunc) = exhaustive_mapset(&mut out, suite, u, if thorough { 200000 } else { 20000 });
            extra.push(("exhaustive_universe".into(), u.to_string()));
            extra.push(("exhaustive_states".into(), states.to_string()));
            extra.push(("exhaustive_truncated".into(), trunc.to_string()));
            let exh_lines = out.lines;
            extra.push(("exhaustive_transitions".into(), exh_lines.to_string()));
            // arena mode prints the whole arena twice per transition: keep arenas small there (disk)
            let big = thorough && !arena_mode();
            let n_hist = if big { 400 } else if thorough { 150 } else { 40 };
            for h in 0..n_hist {
                let cfg = RandCfg {
                    len: match h % 5 { 0 => 40, 1 => 120, 2 => 300, 3 => if big { 2000 } else { 600 }, _ => 80 },
                    universe: match h % 6 { 0 => 8, 1 => 20, 2 => 60, 3 => 200, 4 => if big { 2000 } else if arena_mode() { 120 } else { 500 }, _ => 12 },
                    cap: [0usize, 1, 8, 9, 64, if arena_mode() { 16 } else { 1000 }][h % 6], variant: (h % 2) as u32, profile: (h % 4) as u32,
                };
                random_mapset(&mut out, suite, &mut rng, &cfg);
            }
            if !arena_mode() {
                // high-volume results-only differential run
                let (n, f) = fuzz::fuzz_suite(&mut out, suite, seed, if thorough { 12000 } else { 1500 });
                extra.push(("fuzz_operations".into(), n.to_string()));
                extra.push(("fuzz_failed".into(), f.to_string()));
            }
            if !arena_mode() {
                // every history of up to 7 (thorough: 8) operations over three keys, lookups included
                let d = if thorough { 8 } else { 7 };
                let (n, f) = hexh::history_exhaustive(&mut out, suite, 3, d, 8, false);
                // one operation shorter, with deletes and writes through predecessor handles in the alphabet
                let (n2, f2) = if f { (0, false) } else { hexh::history_exhaustive(&mut out, suite, 3, d - 1, 8, true) };
                extra.push(("history_exhaustive_depth".into(), d.to_string()));
                extra.push(("history_exhaustive_histories".into(), (n + n2).to_string()));
                extra.push(("history_exhaustive_failed".into(), (f || f2).to_string()));
            }
        }
        "key" | "klist" => {
            let (u, tmax, cap) = if thorough { (3, 3, 400000) } else { (2, 3, 6000) };
            let (states, trunc) = exhaustive_key(&mut out, suite, u, tmax, cap);
            extra.push(("exhaustive_universe".into(), u.to_string()));
            extra.push(("exhaustive_states".into(), states.to_string()));
            extra.push(("exhaustive_truncated".into(), trunc.to_string()));
            extra.push(("exhaustive_transitions".into(), out.lines.to_string()));
            arena_edge(&mut out, suite, &mut rng, if thorough { 40 } else { 8 });
            let big = thorough && !arena_mode();
            let n_hist = if big { 600 } else if thorough { 200 } else { 60 };
            for h in 0..n_hist {
                let cfg = RandCfg {
                    len: match h % 5 { 0 => 40, 1 => 120, 2 => 300, 3 => if big { 1500 } else { 500 }, _ => 80 },
                    universe: match h % 6 { 0 => 6, 1 => 16, 2 => 50, 3 => 150, 4 => if big { 1500 } else if arena_mode() { 120 } else { 400 }, _ => 10 },
                    cap: [0usize, 1, 8, 9, 64, if arena_mode() { 16 } else { 1000 }][h % 6], variant: 0, profile: (h % 4) as u32,
                };
                random_key(&mut out, suite, &mut rng, &cfg);
            }
            if !arena_mode() {
                let (n, f) = fuzz::fuzz_suite(&mut out, suite, seed, if thorough { 12000 } else { 1500 });
                extra.push(("fuzz_operations".into(), n.to_string()));
                extra.push(("fuzz_failed".into(), f.to_string()));
            }
            if !arena_mode() {
                // every key probed from the same unpurged state (the state is rebuilt for each probe)
                let np = probe_all_keys(&mut out, suite, &mut rng, if thorough { 60 } else { 12 }, &[8, 16, 24, 32, 48]);
                extra.push(("probe_all_keys".into(), np.to_string()));
            }
            if !arena_mode() {
                let d = if thorough { 7 } else { 6 };
                let (n, f) = hexh::history_exhaustive(&mut out, suite, 3, d, 8, false);
                extra.push(("history_exhaustive_depth".into(), d.to_string()));
                extra.push(("history_exhaustive_histories".into(), n.to_string()));
                extra.push(("history_exhaustive_failed".into(), f.to_string()));
            }
        }
        "seg" => {
            seg::seg_mask_table(&mut out);
            seg::seg_pairs(&mut out, if thorough { 1 } else { 8 });
            extra.push(("pair_stride".into(), (if thorough { 1 } else { 8 }).to_string()));
            seg::seg_layouts(&mut out, &mut rng, thorough);
            seg::seg_random(&mut out, &mut rng, if thorough { 300 } else { 40 }, if thorough { 300 } else { 120 });
            let (nf, ff) = fuzz::fuzz_seg(&mut out, seed, if thorough { 12000 } else { 1500 });
            extra.push(("fuzz_operations".into(), nf.to_string()));
            extra.push(("fuzz_failed".into(), ff.to_string()));
            // every history of up to 5 (thorough: 6) operations over five ranges, on a 32-point domain (buckets =
            // points) and on a 128-point one (buckets of width 4)
            let d = if thorough { 6 } else { 5 };
            let (n1, f1) = hexh::seg_history_exhaustive(&mut out, 0, 31, &[(0, 31), (3, 3), (2, 5), (16, 23), (8, 20)], d);
            let (n2, f2) = hexh::seg_history_exhaustive(&mut out, -64, 63, &[(-64, 63), (-61, -61), (-60, -47), (0, 31), (-33, 17)], d);
            extra.push(("history_exhaustive_depth".into(), d.to_string()));
            extra.push(("history_exhaustive_histories".into(), (n1 + n2).to_string()));
            extra.push(("history_exhaustive_failed".into(), (f1 || f2).to_string()));
        }
        "seg-masks" => { seg::seg_mask_table(&mut out); }
        "seg-pairs" => {
            seg::seg_pairs(&mut out, if thorough { 1 } else { 8 });
            extra.push(("pair_stride".into(), (if thorough { 1 } else { 8 }).to_string()));
        }
        "seg-layout" => {
            seg::seg_layouts(&mut out, &mut rng, thorough);
            let (n, f) = fuzz::fuzz_layouts(&mut out, seed, if thorough { 6000 } else { 700 });
            extra.push(("fuzz_operations".into(), n.to_string()));
            extra.push(("fuzz_failed".into(), f.to_string()));
        }
        s if s.starts_with("inject-") => {
            let coll = &s[7..];
            let (points, ops) = if coll == "seg" {
                (inject::inject_seg(&mut out, &mut rng, if thorough { 20 } else { 4 }, 30), 0)
            } else {
                inject::inject_suite(&mut out, coll, &mut rng, if thorough { 40 } else { 6 }, if thorough { 60 } else { 30 }, 12, if thorough { 64 } else { 16 })
            };
            extra.push(("injection_points".into(), points.to_string()));
            extra.push(("ops_with_callbacks".into(), ops.to_string()));
        }
        // large exports (C19)
        "export-size" => {
            let sizes: Vec<i64> = if thorough { vec![0, 1, 2, 3, 7, 8, 100, 1000, 5000, 65000, 300000, 1000000] } else { vec![0, 1, 2, 7, 100, 1000, 5000, 70000, 250000, 600000] };
            for (i, &n) in sizes.iter().enumerate() {
                for order in 0..3 {
                    // (quick tier: the largest trees in descending order only — the deepest left spines)
                    if !thorough && n > 100000 && order != 1 { continue; }
                    let mut r = Runner::new(&mut out, "export-size", "key", [0usize, 8, 1000][i % 3], 0);
                    r.emit = false; // too large for the driver; the oracle (capacity bound, content) still runs
                    r.oracles = n <= (if thorough { 5000 } else { 1000 });
                    let mut keys: Vec<i64> = (0..n).collect();
                    if order == 1 { keys.reverse(); } else if order == 2 { for j in (1..keys.len()).rev() { let k = rng.below(j as u64 + 1) as usize; keys.swap(j, k); } }
                    for k in keys { r.step_light(&Op::new("insert", &[k, 10, k, 0])); }
                    r.bulk_order = if order < 2 { Some(order as i64) } else { None };
                    r.oracles = true; r.emit = n <= 100;
                    let o = r.step_export_only(&Op::new("export", &[5]), n as usize);
                    let _ = o;
                    r.end();
                }
            }
        }
        _ => { eprintln!("unknown suite {}", suite); std::process::exit(2); }
    }
    out.finish();
    let mut f = std::fs::File::create(format!("{}/stats.json", outdir)).unwrap();
    writeln!(f, "{}", stats_json(&out, &extra)).unwrap();
    println!("suite={} lines={} histories={} oracle_failures={}", suite, out.lines, out.next_hid, out.oracle_fails);
}
