//! High-volume, results-only differential runs. The transition tie costs a snapshot, an abstraction and a model
//! evaluation per operation and therefore sees some 10^4 operations per suite; a change that needs a rare shape
//! (a two-dozen-entry tree with a particular colour pattern, a repair climbing several levels, an arena-growth
//! boundary with a stale inner node) shows once in 10^5 operations or less. Here the real collection and a small
//! reference run side by side on 16 threads with nothing but the answers compared (tens of millions of operations
//! in a couple of seconds); the first failing history is replayed through the ordinary `Runner`, so that it is
//! recorded, attributed, shrunk and replayable like every other oracle failure. An oracle run is a search for
//! failing inputs, never evidence that the property holds.
use crate::colls::*;
use crate::keys::{cb_reset, cb_take, live_check, InjectedPanic};
use crate::rng::Rng;
use crate::run::*;
use std::collections::BTreeMap;
use std::sync::atomic::{AtomicBool, AtomicU64, Ordering};
use std::sync::Mutex;
use std::time::{Duration, Instant};

fn s(v: Option<i64>) -> String { match v { Some(x) => x.to_string(), None => "none".into() } }

struct Cfg { universe: i64, len: usize, cap: usize, profile: u32, life: i64, variant: u32, inject: bool, extreme: bool }

fn cfg_of(h: u64) -> Cfg {
    Cfg {
        universe: [12i64, 24, 64, 200, 1000, 4000][(h % 6) as usize],
        len: [300usize, 1500, 4000][(h % 3) as usize],
        cap: [0usize, 8, 9, 64, 1000][((h / 5) % 5) as usize],
        profile: ((h / 3) % 3) as u32,
        life: [4i64, 12, 40, 100, 1000][((h / 7) % 5) as usize],
        variant: ((h / 2) % 2) as u32,
        inject: h % 4 == 1,
        extreme: h % 8 == 3,
    }
}

/// one random history; `Some(ops)` = the operations up to and including the first wrong answer / panic
fn one_history(coll: &str, cfg: &Cfg, rng: &mut Rng, ops_done: &AtomicU64, rec: &mut Vec<(Op, Option<i64>)>, flush: bool) -> bool {
    let expiring = coll == "key" || coll == "klist";
    let is_set = coll == "set" || coll == "slist";
    let mut c = make(coll, cfg.cap, cfg.variant);
    if flush { eprintln!("@new fuzz-{} {} {} {}", coll, coll, cfg.variant, cfg.cap); }
    let mut m: BTreeMap<i64, (i64, i64)> = BTreeMap::new(); // key -> (exp, val)
    // extreme histories: the key universe is pushed against the least / greatest key value, and the clock starts
    // far below zero
    let off: i64 = if !cfg.extreme { 0 } else if cfg.universe % 2 == 0 { i32::MAX as i64 - cfg.universe } else { i32::MIN as i64 + 1 };
    let mut t: i64 = if cfg.extreme && cfg.life < 100 { -1_000_000 } else { 0 };
    let u = cfg.universe;
    let mut n_ops = 0u64;
    let live = |m: &BTreeMap<i64, (i64, i64)>, k: i64, t: i64| -> Option<i64> { m.get(&k).filter(|x| !expiring || x.0 > t).map(|x| x.1) };
    let pred = |m: &BTreeMap<i64, (i64, i64)>, k: i64, strict: bool, t: i64| -> Option<(i64, i64)> {
        let it: Box<dyn Iterator<Item = (&i64, &(i64, i64))>> = if strict { Box::new(m.range(..k).rev()) } else { Box::new(m.range(..=k).rev()) };
        for (kk, x) in it { if !expiring || x.0 > t { return Some((*kk, x.1)); } }
        None
    };
    macro_rules! run {
        ($op:expr, $ek:expr, $expect:expr) => {{
            let op: Op = $op;
            rec.push((op.clone(), $ek));
            if flush { eprintln!("@op {}", op.text()); }
            let o = c.apply(&op);
            n_ops += 1;
            let e: Option<String> = $expect;
            if let Some(e) = e { if e != o { ops_done.fetch_add(n_ops, Ordering::Relaxed); return true; } }
            o
        }};
    }
    // handles held since the last removal (C17): (handle, key)
    let mut held: Vec<(i64, i64)> = Vec::new();
    let mut struct_bad_at: Option<(usize, usize)> = None;
    // at most one injected callback panic per history (C18), at a random position, in every second history
    let inj_at: Option<usize> = if cfg.inject { Some(rng.below(cfg.len as u64) as usize) } else { None };
    for i in 0..cfg.len {
        let roll = rng.below(100);
        let k = off + rng.range(0, u - 1);
        let val = 1000 * (i as i64 + 1) + k % 1000;
        if inj_at == Some(i) {
            // an operation that calls user code: insert of an absent key, or (expiring) a lookup, or a delete
            let mut post = m.clone();
            let op = if expiring {
                if rng.chance(1, 2) {
                    let mut kk = k; let mut guard = 0;
                    while live(&m, kk, t).is_some() && guard < 8 { kk = off + (kk - off + 1) % u; guard += 1; }
                    if live(&m, kk, t).is_some() { continue; }
                    let e = t + rng.range(0, cfg.life);
                    post.insert(kk, (e, val));
                    Op::new("insert", &[kk, e, val, t])
                } else { Op::new(["get", "fle", "fl"][rng.below(3) as usize], &[t, (off + rng.range(-1, u))]) }
            } else if rng.chance(1, 2) && !m.contains_key(&k) { post.insert(k, (0, val)); Op::new("insert", &[k, val]) }
            else { post.remove(&k); Op::new("delete", &[k]) };
            let kinj = rng.below(20) as usize;
            rec.push((Op::new("@inject", &[kinj as i64]), None));
            rec.push((op.clone(), None));
            if flush { eprintln!("@op @inject {}", kinj); eprintln!("@op {}", op.text()); }
            live_check(None);
            cb_reset(Some(kinj), false);
            let res = std::panic::catch_unwind(std::panic::AssertUnwindSafe(|| c.apply(&op)));
            cb_take();
            n_ops += 1;
            held.clear();
            match res {
                Ok(_) => { let l = rec.len(); rec.remove(l - 2); m = post; }
                Err(e) if e.is::<InjectedPanic>() => {
                    let torn = matches!(c.structure(), Some(Err(_))) || c.abs_note().is_some();
                    let now: Option<Vec<(i64, i64)>> = c.entries().ok().map(|es| es.iter().filter(|x| !expiring || x.2 > t).map(|x| (x.1, x.3)).collect());
                    let proj = |mm: &BTreeMap<i64, (i64, i64)>| -> Vec<(i64, i64)> { mm.iter().filter(|(_, x)| !expiring || x.0 > t).map(|(k, x)| (*k, x.1)).collect() };
                    match now {
                        Some(now) if !torn && now == proj(&post) => { m = post; }
                        Some(now) if !torn && now == proj(&m) => {}
                        _ => { ops_done.fetch_add(n_ops, Ordering::Relaxed); return true; }
                    }
                }
                Err(_) => { ops_done.fetch_add(n_ops, Ordering::Relaxed); return true; }
            }
            continue;
        }
        // every 64 operations: shape, colours, links, slot partition (C02, C11)
        if i % 64 == 63 && struct_bad_at.is_none() {
            let bad = matches!(c.structure(), Some(Err(_))) || c.abs_note().is_some();
            // a broken shape / link / slot partition is a finding by itself; the history is nevertheless continued
            // for a while, because a wrong *answer* caused by it (a neighbour step over a stale parent link, a lost
            // entry) is the better failing input for the properties about answers
            if bad { struct_bad_at = Some((rec.len(), i)); }
            // sets: with a link broken, walk the whole set by neighbour steps in both directions at once (C09)
            if bad && is_set && !m.is_empty() {
                let asc: Vec<(i64, i64)> = m.iter().map(|(k, x)| (*k, x.1)).collect();
                for down in [false, true] {
                    let seq: Vec<(i64, i64)> = if down { asc.iter().rev().cloned().collect() } else { asc.clone() };
                    let start = if down { seq[0].0 } else { seq[0].0 };
                    let mut h = run!(Op::new("fil", &[start]), None, None);
                    for (j, (nk, nv)) in seq.iter().enumerate() {
                        let hh = match h.parse::<i64>() { Ok(x) => x, Err(_) => { ops_done.fetch_add(n_ops, Ordering::Relaxed); return true; } };
                        run!(Op::new("validx", &[hh]), Some(*nk), Some(nv.to_string()));
                        let last = j + 1 == seq.len();
                        h = run!(Op::new(if down { "before" } else { "after" }, &[hh]), Some(*nk), if last { Some("none".to_string()) } else { None });
                        if j > 4000 { break; }
                    }
                }
            }
        }
        if let Some((at, i0)) = struct_bad_at {
            if i >= i0 + 192 { rec.truncate(at); rec.push((Op::new("isempty", &[]), None)); ops_done.fetch_add(n_ops, Ordering::Relaxed); return true; }
        }
        if expiring {
            // comparisons on keys that are not live at the operation's time (C20)
            if live_check(None) { ops_done.fetch_add(n_ops, Ordering::Relaxed); return true; }
            if rng.chance(1, 3) { t += rng.range(0, 2); }
            live_check(Some(t));
            // profiles: 0 lookup-heavy, 1 predecessor-heavy, 2 churn with clears / exports
            let (p_ins, p_get, p_fle, p_fl) = match cfg.profile { 0 => (50, 95, 98, 100), 1 => (45, 55, 80, 100), _ => (40, 60, 75, 90) };
            if roll < p_ins {
                let mut kk = k; let mut guard = 0;
                while live(&m, kk, t).is_some() && guard < 8 { kk = off + (kk - off + 1) % u; guard += 1; }
                if live(&m, kk, t).is_some() { continue; }
                // (now and then the greatest expiration the clock type can express)
                let e = if cfg.extreme && rng.chance(1, 40) { i32::MAX as i64 } else { t + rng.range(0, cfg.life) };
                run!(Op::new("insert", &[kk, e, val, t]), None, None);
                m.insert(kk, (e, val));
            } else if roll < p_fl {
                // half of the probes are stored keys (equality with a stored key is where the three queries differ)
                let mut kq = (off + rng.range(-1, u));
                if rng.chance(1, 2) { if let Some((kk, _)) = m.range(kq..).next() { kq = *kk; } }
                if roll < p_get { run!(Op::new("get", &[t, kq]), None, Some(s(live(&m, kq, t)))); }
                else if roll < p_fle { run!(Op::new("fle", &[t, kq]), None, Some(s(pred(&m, kq, false, t).map(|x| x.1)))); }
                else { run!(Op::new("fl", &[t, kq]), None, Some(s(pred(&m, kq, true, t).map(|x| x.1)))); }
            }
            else if roll < 96 {
                if coll == "klist" { continue; }
                let exp: Vec<String> = m.iter().filter(|(_, x)| x.0 > t).map(|(_, x)| x.1.to_string()).collect();
                let o = run!(Op::new("export", &[t]), None, None);
                if o.split(" cap=").next().unwrap_or("") != format!("[{}]", exp.join(",")) { ops_done.fetch_add(n_ops, Ordering::Relaxed); return true; }
                // (C19: room reserved in proportion to what is exported)
                if let Some(cap) = o.split(" cap=").nth(1).and_then(|x| x.parse::<usize>().ok()) { if cap > 2 * exp.len() + 8 { ops_done.fetch_add(n_ops, Ordering::Relaxed); return true; } }
                m.retain(|_, x| x.0 > t);
            } else if roll < 98 { run!(Op::new("clear", &[]), None, None); m.clear(); if rng.chance(1, 2) { t = 0; } }
            else { let kq = (off + rng.range(-1, u)); run!(Op::new("fleby", &[t, 2 * kq]), None, Some(s(pred(&m, kq, false, t).map(|x| x.1)))); }
        } else {
            // profiles: 0 insert/delete/get, 1 handle-heavy, 2 churn on a nearly full universe
            let (p_ins, p_del, p_get) = match cfg.profile { 0 => (40, 70, 100), 1 => (35, 55, 70), _ => (48, 96, 100) };
            if roll < p_ins {
                if m.contains_key(&k) { continue; }
                run!(Op::new("insert", &[k, val]), None, None);
                m.insert(k, (0, val));
                // a handle taken before this insertion still designates its entry
                if !held.is_empty() && (coll == "map" || coll == "set") {
                    let (hh, hk) = held[rng.below(held.len() as u64) as usize];
                    if let Some(v) = m.get(&hk).map(|x| x.1) { run!(Op::new("validx", &[hh]), Some(hk), Some(v.to_string())); }
                }
            } else if roll < p_del {
                run!(Op::new("delete", &[k]), None, None); m.remove(&k); held.clear();
                // small sets: after a removal walk the whole set by neighbour steps, one direction at a time (C09:
                // a repair that leaves one parent field stale shows here before anything else trips over it)
                if is_set && !m.is_empty() && m.len() <= 48 && rng.chance(1, 2) {
                    let down = rng.chance(1, 2);
                    let seq: Vec<(i64, i64)> = if down { m.iter().rev().map(|(k, x)| (*k, x.1)).collect() } else { m.iter().map(|(k, x)| (*k, x.1)).collect() };
                    let mut h = run!(Op::new("fil", &[seq[0].0]), None, None);
                    for (j, (nk, nv)) in seq.iter().enumerate() {
                        let hh = match h.parse::<i64>() { Ok(x) => x, Err(_) => { ops_done.fetch_add(n_ops, Ordering::Relaxed); return true; } };
                        run!(Op::new("validx", &[hh]), Some(*nk), Some(nv.to_string()));
                        let last = j + 1 == seq.len();
                        h = run!(Op::new(if down { "before" } else { "after" }, &[hh]), Some(*nk), if last { Some("none".to_string()) } else { None });
                    }
                }
            }
            else if roll < p_get {
                let mut kq = (off + rng.range(-1, u));
                if rng.chance(1, 2) { if let Some((kk, _)) = m.range(kq..).next() { kq = *kk; } }
                run!(Op::new("get", &[kq]), None, Some(s(live(&m, kq, 0))));
            }
            else {
                // predecessor handle, then read / write / delete / neighbour steps through it
                let mut kq = (off + rng.range(-1, u));
                if rng.chance(1, 2) { if let Some((kk, _)) = m.range(kq..).next() { kq = *kk; } }
                // (the comparator form takes 2*key)
                let use_by = rng.chance(1, 2);
                let h = run!(if use_by { Op::new("filby", &[2 * kq]) } else { Op::new("fil", &[kq]) }, None, None);
                let e = pred(&m, kq, false, 0);
                match (h.parse::<i64>().ok(), e) {
                    (None, None) => {}
                    (Some(hh), Some((pk, pv))) => {
                        let w = rng.below(10);
                        if w < 5 { run!(Op::new("validx", &[hh]), Some(pk), Some(pv.to_string())); if held.len() < 8 { held.push((hh, pk)); } }
                        else if w < 7 { run!(Op::new("setidx", &[hh, val]), Some(pk), None); m.insert(pk, (0, val)); }
                        else if w < 9 || !is_set { run!(Op::new("delidx", &[hh]), Some(pk), None); m.remove(&pk); held.clear(); }
                        else {
                            // walk from the predecessor by neighbour steps, down or up: values in key order, then the sentinel
                            let down = rng.chance(1, 2);
                            let mut cur = hh;
                            let mut keys: Vec<(i64, i64)> = if down { m.range(..=pk).rev().take(8).map(|(k, x)| (*k, x.1)).collect() } else { m.range(pk..).take(8).map(|(k, x)| (*k, x.1)).collect() };
                            let complete = keys.len() < 8;
                            keys.remove(0);
                            let mut prev = pk;
                            for (nk, nv) in keys {
                                let nh = run!(Op::new(if down { "before" } else { "after" }, &[cur]), Some(prev), None);
                                match nh.parse::<i64>() { Ok(x) => { cur = x; prev = nk; run!(Op::new("validx", &[cur]), Some(nk), Some(nv.to_string())); } Err(_) => { ops_done.fetch_add(n_ops, Ordering::Relaxed); return true; } }
                            }
                            if complete { run!(Op::new(if down { "before" } else { "after" }, &[cur]), Some(prev), Some("none".to_string())); }
                        }
                    }
                    _ => { ops_done.fetch_add(n_ops, Ordering::Relaxed); return true; }
                }
            }
            if cfg.profile == 2 && rng.chance(1, 400) { run!(Op::new("clear", &[]), None, None); m.clear(); held.clear(); }
        }
    }
    if expiring && cfg.extreme && struct_bad_at.is_none() {
        // the last instant of the clock: nothing is live any more (an expiration must be *greater* than the time),
        // so every answer is empty and no stored key may be handed to comparison code
        t = i32::MAX as i64;
        live_check(Some(t));
        // (in every second history the export comes first, before any lookup has purged lazily)
        if coll == "key" && rng.chance(1, 2) {
            let o = run!(Op::new("export", &[t]), None, None);
            let cap = o.split(" cap=").nth(1).and_then(|x| x.parse::<usize>().ok()).unwrap_or(0);
            if !o.starts_with("[]") || cap > 8 { ops_done.fetch_add(n_ops, Ordering::Relaxed); return true; }
            m.clear();
        }
        // (first the keys stamped with the greatest expiration, then a few others)
        let mut ks: Vec<i64> = m.iter().filter(|(_, x)| x.0 == i32::MAX as i64).map(|(k, _)| *k).take(4).collect();
        ks.extend(m.keys().cloned().take(4));
        // (and two probes whatever is stored: the second one meets a collection that has just been purged empty)
        ks.push(off + 1); ks.push(off + 2);
        let rot = rng.below(3);
        for kq in ks {
            // (the three kinds in a rotating order, so that each of them is the first to fail in some history)
            for j in 0..3 {
                match (j + rot) % 3 {
                    0 => { run!(Op::new("get", &[t, kq]), None, Some("none".to_string())); }
                    1 => { run!(Op::new("fle", &[t, kq]), None, Some("none".to_string())); }
                    _ => { run!(Op::new("fl", &[t, kq + 1]), None, Some("none".to_string())); }
                }
            }
        }
    }
    if expiring && cfg.extreme && struct_bad_at.is_none() {
        // after the last instant: slots accounted for, and an export that reserves nothing for nothing
        // (in either order, so that both findings get their own failing history)
        let slots_first = rng.chance(1, 2);
        if slots_first && (matches!(c.structure(), Some(Err(_))) || c.abs_note().is_some()) { rec.push((Op::new("isempty", &[]), None)); ops_done.fetch_add(n_ops, Ordering::Relaxed); return true; }
        if coll == "key" {
            let o = run!(Op::new("export", &[t]), None, None);
            let cap = o.split(" cap=").nth(1).and_then(|x| x.parse::<usize>().ok()).unwrap_or(0);
            if !o.starts_with("[]") || cap > 8 { ops_done.fetch_add(n_ops, Ordering::Relaxed); return true; }
        }
        if !slots_first && (matches!(c.structure(), Some(Err(_))) || c.abs_note().is_some()) { rec.push((Op::new("isempty", &[]), None)); ops_done.fetch_add(n_ops, Ordering::Relaxed); return true; }
    }
    if expiring && live_check(None) { ops_done.fetch_add(n_ops, Ordering::Relaxed); return true; }
    ops_done.fetch_add(n_ops, Ordering::Relaxed);
    if let Some((at, _)) = struct_bad_at { rec.truncate(at); rec.push((Op::new("isempty", &[]), None)); return true; }
    false
}

/// run random histories on 16 threads for `millis` ms; returns (operations executed, a failure was replayed)
pub fn fuzz_suite(out: &mut Out, coll: &str, seed: u64, millis: u64) -> (u64, bool) {
    let ops_done = AtomicU64::new(0);
    let stop = AtomicBool::new(false);
    // the first failing history per *kind* of failing operation (a wrong neighbour step is C09's, a wrong lookup
    // C04 / C05's, a panic C10's …): each property should get its own failing input, not only the commonest one
    let found: Mutex<Vec<(String, Vec<(Op, Option<i64>)>, usize, u32)>> = Mutex::new(Vec::new());
    let dir = out.dir.clone();
    if std::env::var("VERIF_FLUSH").is_ok() {
        // crash-locating re-run: the first run died inside this stage (a non-unwinding abort of the real code).
        // Every thread had noted the history it was in; replay those one by one, every operation announced first.
        for th in 0..16u64 {
            if let Ok(txt) = std::fs::read_to_string(format!("{}/fuzz-{}-{}.cur", dir, coll, th)) {
                let v: Vec<u64> = txt.split_whitespace().filter_map(|x| x.parse().ok()).collect();
                if v.len() == 2 {
                    let cfg = cfg_of(v[0]);
                    let mut r2 = Rng(v[1]);
                    let mut rec = Vec::new();
                    let _ = std::panic::catch_unwind(std::panic::AssertUnwindSafe(|| one_history(coll, &cfg, &mut r2, &ops_done, &mut rec, true)));
                }
            }
        }
        return (ops_done.load(Ordering::Relaxed), false);
    }
    let deadline = Instant::now() + Duration::from_millis(millis);
    std::thread::scope(|sc| {
        for th in 0..16u64 {
            let (ops_done, stop, found, dir) = (&ops_done, &stop, &found, &dir);
            sc.spawn(move || {
                silent_panics();
                let mut rng = Rng::new(seed.wrapping_mul(1_000_003).wrapping_add(th * 7919 + 13));
                let mut h = 0u64;
                while !stop.load(Ordering::Relaxed) && Instant::now() < deadline {
                    h += 1;
                    let cfg = cfg_of(h);
                    let mut r2 = rng.fork();
                    // (noted for the crash-locating re-run: an abort of the real code kills the whole process)
                    let _ = std::fs::write(format!("{}/fuzz-{}-{}.cur", dir, coll, th), format!("{} {}", h, r2.0));
                    progress();
                    let mut rec: Vec<(Op, Option<i64>)> = Vec::new();
                    let res = std::panic::catch_unwind(std::panic::AssertUnwindSafe(|| one_history(coll, &cfg, &mut r2, ops_done, &mut rec, false)));
                    // (a panic of the real code: the operation that panicked is the last one recorded)
                    let failing = match res { Ok(false) => false, _ => true };
                    if failing && !rec.is_empty() {
                        let kind = format!("{}{}", rec[rec.len() - 1].0.name, if matches!(res, Err(_)) { "!" } else { "" });
                        let mut f = found.lock().unwrap();
                        if !f.iter().any(|x| x.0 == kind) { f.push((kind, rec, cfg.cap, cfg.variant)); }
                        if f.len() >= 4 { stop.store(true, Ordering::Relaxed); }
                    }
                }
            });
        }
    });
    let n = ops_done.load(Ordering::Relaxed);
    let fs: Vec<(String, Vec<(Op, Option<i64>)>, usize, u32)> = std::mem::take(&mut *found.lock().unwrap());
    for th in 0..16 { let _ = std::fs::remove_file(format!("{}/fuzz-{}-{}.cur", dir, coll, th)); }
    let any = !fs.is_empty();
    for (_, ops, cap, variant) in fs {
        let before = out.oracle_fails;
        let mut r = Runner::new(out, &format!("fuzz-{}", coll), coll, cap, variant);
        r.emit = false; r.oracles = false;
        let last = ops.len() - 1;
        // (the storage-bound oracle needs the peak population: the quiet replay does not track it; the number of
        // insertions is an upper bound)
        r.refm.peak = ops.iter().filter(|o| o.0.name == "insert").count();
        r.refm.last_t = i64::MIN;
        let mut pending: Option<usize> = None;
        for (i, (op, ek)) in ops.iter().enumerate() {
            if op.name == "@inject" { pending = Some(op.a[0] as usize); continue; }
            if let Some(kinj) = pending.take() {
                r.oracles = true; r.emit = i == last;
                let ok = r.step_injected(op, kinj, *ek, true);
                if !ok || i == last { r.emit = true; break; }
                r.oracles = false; r.emit = false;
                continue;
            }
            if i == last || r.dead {
                r.oracles = true; r.emit = true;
                r.step(op, *ek);
                break;
            }
            // a neighbour step whose result is read next: the step itself is judged (C09), not only the read
            if i + 1 == last && matches!(op.name.as_str(), "after" | "before" | "fil" | "filby") {
                r.oracles = true; r.emit = true;
                r.step(op, *ek);
                continue;
            }
            // quiet replay, reference kept up to date
            r.step_light(op);
            r.ops.push(op.clone());
            match op.name.as_str() {
                "insert" | "delete" | "clear" | "setidx" | "delidx" => r.ref_update(op, *ek),
                _ => {}
            }
            if r.expiring { let tt = if op.name == "insert" { op.a[3] } else if op.a.is_empty() { r.refm.last_t } else { op.a[0] }; r.refm.last_t = r.refm.last_t.max(tt); if op.name == "export" { r.refm.purge(tt); } if op.name == "clear" { r.refm.last_t = i64::MIN; } }
        }
        r.emit = true;
        if r.out.oracle_fails == before {
            let prop: &[&str] = match coll { "map" => &["C04", "C08"], "set" => &["C05", "C08", "C09"], "key" => &["C01", "C06", "C07"], _ => &["C13"] };
            r.fail(prop, "an answer along a long random history differs from the reference (high-volume differential run)", "the reference answer", "see the last operation of the history");
        }
        r.end();
    }
    (n, any)
}

// ------------------------------------------------------------------------------------------------
// segment tree

fn seg_cfg(h: u64) -> (i64, i64, usize, u32, i64) {
    let (lo, hi) = [(0i64, 31i64), (-64, 63), (0, 1000), (-100_000, 900_000), (5, 21), (0, 127), (0, 0), (0, 0)][(h % 8) as usize];
    (lo, hi, [200usize, 800, 2500][(h % 3) as usize], ((h / 3) % 3) as u32, [2i64, 6, 40, 400][((h / 5) % 4) as usize])
}

fn one_seg_history(lo: i64, hi: i64, len: usize, profile: u32, life: i64, rng: &mut Rng, ops_done: &AtomicU64, rec: &mut Vec<Op>, flush: bool) -> bool {
    use crate::seg::ref_scale;
    rec.clear();
    // (0, 0) stands for a random domain: any offset, lengths spread over the powers of two and their neighbours
    let (lo, hi) = if lo == 0 && hi == 0 {
        let e = rng.range(0, 40);
        let base: i64 = 1i64 << e;
        let len = match rng.below(6) { 0 => base, 1 => base + 1, 2 => (base - 1).max(1), 3 => base + rng.range(0, base), 4 => rng.range(1, 40), _ => 32 * base + rng.range(-1, 1) };
        let lo = match rng.below(4) { 0 => 0, 1 => -(len / 2), 2 => rng.range(-(1i64 << 40), 1i64 << 40), _ => -len - rng.range(0, 1000) };
        (lo, lo + len.max(1) - 1)
    } else { (lo, hi) };
    rec.push(Op::new("new", &[lo, hi]));
    if flush { eprintln!("@new fuzz-seg seg 0 0"); eprintln!("@op new {} {}", lo, hi); }
    let built = SegC::new(lo, hi);
    // construction and coordinate mapping against the reference (C14)
    let exp_scale = ref_scale(lo, hi);
    match (&built, exp_scale) {
        (None, None) => { ops_done.fetch_add(1, Ordering::Relaxed); return false; }
        (Some(c), Some(s)) => {
            let (mn, mx, sc, cnt) = c.0.verif_layout();
            let ihi = c.0.verif_index(hi);
            let mid = lo + (hi - lo) / 2;
            let imid = c.0.verif_index(mid);
            if sc != s || mn != lo || mx != hi || c.0.verif_index(lo) != 0 || ihi >= 32 || imid > ihi || (imid as i64) != ((mid - lo) >> s) || cnt < ihi as usize + 32 {
                ops_done.fetch_add(1, Ordering::Relaxed); return true;
            }
        }
        _ => { ops_done.fetch_add(1, Ordering::Relaxed); return true; }
    }
    let mut c = built.unwrap();
    let sc = exp_scale.unwrap_or(0);
    let bucket = |x: i64| -> i64 { (x - lo) >> sc };
    let span = hi - lo;
    let mut vals: Vec<(i64, i64, i64, i64)> = Vec::new();
    let mut t = 0i64;
    let hot = (lo + rng.below(span as u64 + 1) as i64, 0i64);
    let mut n_ops = 0u64;
    let pick = |rng: &mut Rng| -> (i64, i64) {
        match rng.below(10) {
            0 => (lo, hi),
            1 | 2 => { let a = lo + rng.below(span as u64 + 1) as i64; (a, a) }
            3 | 4 | 5 => { let a = lo + rng.below(span as u64 + 1) as i64; (a, (a + rng.below((span / 16 + 1) as u64) as i64).min(hi)) }
            _ => { let a = lo + rng.below(span as u64 + 1) as i64; (a, (a + rng.below(span as u64 / 2 + 1) as i64).min(hi)) }
        }
    };
    // one injected panic of the expiration accessor per history, in every third history (C18)
    let inj_at: Option<usize> = if len % 3 == 2 || rng.chance(1, 3) { Some(rng.below(len as u64) as usize) } else { None };
    for i in 0..len {
        if rng.chance(1, 4) { t += rng.range(0, 2); }
        let roll = rng.below(100);
        let p_ins = match profile { 0 => 55, 1 => 80, _ => 40 };
        if inj_at == Some(i) {
            let kinj = rng.below(12) as usize;
            let (a, b) = pick(rng);
            let is_ins = rng.chance(1, 2);
            let id = 1_000_000 + i as i64;
            let e = t + rng.range(0, life.max(1));
            let op = if is_ins { Op::new("insert", &[a, b, id, e]) } else { Op::new("query", &[a, b, t, -1]) };
            rec.push(Op::new("@inject", &[kinj as i64]));
            rec.push(op.clone());
            if flush { eprintln!("@op @inject {}", kinj); eprintln!("@op {}", op.text()); }
            cb_reset(Some(kinj), false);
            let res = std::panic::catch_unwind(std::panic::AssertUnwindSafe(|| c.apply(&op)));
            cb_take();
            n_ops += 1;
            match res {
                Ok(_) => { let l = rec.len(); rec.remove(l - 2); if is_ins { vals.push((a, b, id, e)); } }
                Err(err) if err.is::<InjectedPanic>() => {
                    if is_ins {
                        // all or nothing: visible from the whole domain iff visible from each end of its range
                        let seen = |c: &mut SegC, x: i64, y: i64, rec: &mut Vec<Op>| -> bool {
                            let q = Op::new("query", &[x, y, t, -1]); rec.push(q.clone()); let o = c.apply(&q);
                            o.trim_matches(|ch| ch == '[' || ch == ']').split(',').any(|s| s == id.to_string())
                        };
                        let whole = seen(&mut c, lo, hi, rec);
                        let at_a = seen(&mut c, a, a, rec);
                        let at_b = seen(&mut c, b, b, rec);
                        n_ops += 3;
                        if whole != at_a || whole != at_b { ops_done.fetch_add(n_ops, Ordering::Relaxed); return true; }
                        if whole { vals.push((a, b, id, e)); }
                        vals.retain(|v| v.3 >= t);
                    }
                }
                Err(_) => { ops_done.fetch_add(n_ops, Ordering::Relaxed); return true; }
            }
            continue;
        }
        if roll < p_ins {
            // profile 1: a hot spot that receives most of the values (long bucket lists)
            let (a, b) = if profile == 1 && rng.chance(3, 4) { (hot.0, hot.0) } else { pick(rng) };
            let id = i as i64 + 1;
            let e = match rng.below(60) { 0 => i32::MAX as i64, 1 => i32::MIN as i64, _ => t + rng.range(-1, life) };
            let op = Op::new("insert", &[a, b, id, e]);
            rec.push(op.clone()); if flush { eprintln!("@op {}", op.text()); } c.apply(&op); n_ops += 1;
            vals.push((a, b, id, e));
        } else if roll < 98 {
            let (x, y) = if rng.chance(1, 5) { (lo, hi) } else if profile == 1 && rng.chance(1, 2) { (hot.0, hot.0) } else { pick(rng) };
            let take = if rng.chance(1, 5) { rng.range(1, 3) } else { -1 };
            let op = Op::new("query", &[x, y, t, take]);
            rec.push(op.clone());
            if flush { eprintln!("@op {}", op.text()); }
            let o = c.apply(&op); n_ops += 1;
            let mut exp: Vec<i64> = vals.iter().filter(|v| v.3 >= t && bucket(v.0) <= bucket(y) && bucket(x) <= bucket(v.1)).map(|v| v.2).collect();
            exp.sort();
            let mut got: Vec<i64> = o.trim_matches(|ch| ch == '[' || ch == ']').split(',').filter(|s| !s.is_empty()).filter_map(|s| s.parse().ok()).collect();
            got.sort();
            let ok = if take < 0 { got == exp } else {
                let mut g2 = got.clone(); g2.dedup();
                g2.len() == got.len() && got.iter().all(|g| exp.binary_search(g).is_ok()) && got.len() == exp.len().min(take as usize)
            };
            if !ok { ops_done.fetch_add(n_ops, Ordering::Relaxed); return true; }
            if take < 0 && x == lo && y == hi {
                let stale = c.0.verif_chunks().iter().flatten().filter(|e| (e.0.exp as i64) < t).count();
                if stale > 0 { ops_done.fetch_add(n_ops, Ordering::Relaxed); return true; }
                vals.retain(|v| v.3 >= t);
            }
        } else {
            let op = Op::new("clear", &[]);
            rec.push(op.clone()); if flush { eprintln!("@op {}", op.text()); } c.apply(&op); n_ops += 1;
            vals.clear();
            if rng.chance(1, 2) { t = 0; }
        }
    }
    ops_done.fetch_add(n_ops, Ordering::Relaxed);
    false
}

pub fn fuzz_seg(out: &mut Out, seed: u64, millis: u64) -> (u64, bool) {
    let ops_done = AtomicU64::new(0);
    let stop = AtomicBool::new(false);
    let found: Mutex<Option<(Vec<Op>, i64, i64)>> = Mutex::new(None);
    let dir = out.dir.clone();
    if std::env::var("VERIF_FLUSH").is_ok() {
        for th in 0..16u64 {
            if let Ok(txt) = std::fs::read_to_string(format!("{}/fuzz-seg-{}.cur", dir, th)) {
                let v: Vec<u64> = txt.split_whitespace().filter_map(|x| x.parse().ok()).collect();
                if v.len() == 2 {
                    let (lo, hi, len, profile, life) = seg_cfg(v[0]);
                    let mut r2 = Rng(v[1]);
                    let mut rec = Vec::new();
                    let _ = std::panic::catch_unwind(std::panic::AssertUnwindSafe(|| one_seg_history(lo, hi, len, profile, life, &mut r2, &ops_done, &mut rec, true)));
                }
            }
        }
        return (ops_done.load(Ordering::Relaxed), false);
    }
    let deadline = Instant::now() + Duration::from_millis(millis);
    std::thread::scope(|sc| {
        for th in 0..16u64 {
            let (ops_done, stop, found, dir) = (&ops_done, &stop, &found, &dir);
            sc.spawn(move || {
                silent_panics();
                let mut rng = Rng::new(seed.wrapping_mul(999_983).wrapping_add(th * 104_729 + 7));
                let mut h = 0u64;
                while !stop.load(Ordering::Relaxed) && Instant::now() < deadline {
                    h += 1;
                    let (lo, hi, len, profile, life) = seg_cfg(h);
                    let mut r2 = rng.fork();
                    let _ = std::fs::write(format!("{}/fuzz-seg-{}.cur", dir, th), format!("{} {}", h, r2.0));
                    progress();
                    let mut rec: Vec<Op> = Vec::new();
                    let res = std::panic::catch_unwind(std::panic::AssertUnwindSafe(|| one_seg_history(lo, hi, len, profile, life, &mut r2, ops_done, &mut rec, false)));
                    if !matches!(res, Ok(false)) {
                        let mut f = found.lock().unwrap();
                        if f.is_none() && !rec.is_empty() { *f = Some((rec, lo, hi)); }
                        stop.store(true, Ordering::Relaxed);
                    }
                }
            });
        }
    });
    let n = ops_done.load(Ordering::Relaxed);
    let f = found.lock().unwrap().take();
    for th in 0..16 { let _ = std::fs::remove_file(format!("{}/fuzz-seg-{}.cur", dir, th)); }
    if let Some((ops, _, _)) = f {
        let before = out.oracle_fails;
        // (the first recorded operation is the construction with the domain actually used)
        let (lo, hi) = (ops[0].a[0], ops[0].a[1]);
        let mut r = crate::seg::SegRunner::new(out, "fuzz-seg", lo, hi);
        let mut pending: Option<usize> = None;
        for op in &ops[1..] {
            if op.name == "@inject" { pending = Some(op.a[0] as usize); continue; }
            if let Some(kinj) = pending.take() { if !r.step_injected(op, kinj) { break; } continue; }
            r.step(op);
            if r.dead { break; }
        }
        if r.out.oracle_fails == before {
            r.fail(&["C03", "C16"], "an answer / the stored copies along a long random history differ from the reference (high-volume differential run)", "the reference answer", "see the last operation of the history");
        }
        r.end();
        return (n, true);
    }
    (n, false)
}

/// construction and coordinate mapping only (C14): random domains at any offset, lengths over the powers of two and
/// their neighbours; returns (domains tried, a failure was replayed)
pub fn fuzz_layouts(out: &mut Out, seed: u64, millis: u64) -> (u64, bool) {
    use crate::seg::ref_scale;
    let done = AtomicU64::new(0);
    let stop = AtomicBool::new(false);
    let found: Mutex<Option<(i64, i64)>> = Mutex::new(None);
    let deadline = Instant::now() + Duration::from_millis(millis);
    std::thread::scope(|sc| {
        for th in 0..16u64 {
            let (done, stop, found) = (&done, &stop, &found);
            sc.spawn(move || {
                silent_panics();
                let mut rng = Rng::new(seed.wrapping_mul(65_537).wrapping_add(th * 31 + 3));
                let mut n = 0u64;
                while !stop.load(Ordering::Relaxed) && (n % 256 != 0 || Instant::now() < deadline) {
                    n += 1;
                    let e = rng.range(0, 61);
                    let base: i64 = 1i64 << e;
                    let len = match rng.below(7) { 0 => base, 1 => base + 1, 2 => (base - 1).max(1), 3 => base + rng.range(0, base - 1), 4 => rng.range(1, 70), 5 => base + 2, _ => (base - 2).max(1) };
                    // (offsets anywhere, including domains that end at the greatest / begin at the least coordinate)
                    let lo = match rng.below(7) { 0 => 0, 1 => -(len / 2), 2 => rng.range(-(1i64 << 61), 1i64 << 61), 3 => -len, 4 => i64::MAX - (len - 1), 5 => i64::MIN, _ => rng.range(-100, 100) };
                    let hi = match lo.checked_add(len - 1) { Some(h) => h, None => continue };
                    if (hi as i128) - (lo as i128) + 1 >= (1i128 << 62) { continue; }
                    let res = std::panic::catch_unwind(|| {
                        let built = SegC::new(lo, hi);
                        match (&built, ref_scale(lo, hi)) {
                            (None, None) => true,
                            (Some(c), Some(s)) => {
                                let (mn, mx, scl, cnt) = c.0.verif_layout();
                                let ihi = c.0.verif_index(hi);
                                let mid = lo + (hi - lo) / 2;
                                let q = lo + (hi - lo) / 32;
                                scl == s && mn == lo && mx == hi && c.0.verif_index(lo) == 0 && ihi < 32 && (ihi == 31 || s == 0 || true)
                                    && (c.0.verif_index(mid) as i64) == ((mid as i128 - lo as i128) >> s) as i64
                                    && (c.0.verif_index(q) as i64) == ((q as i128 - lo as i128) >> s) as i64
                                    && cnt >= ihi as usize + 32
                            }
                            _ => false,
                        }
                    });
                    if !matches!(res, Ok(true)) {
                        let mut f = found.lock().unwrap();
                        if f.is_none() { *f = Some((lo, hi)); }
                        stop.store(true, Ordering::Relaxed);
                    }
                }
                done.fetch_add(n, Ordering::Relaxed);
            });
        }
    });
    let n = done.load(Ordering::Relaxed);
    let f = found.lock().unwrap().take();
    if let Some((lo, hi)) = f {
        let before = out.oracle_fails;
        let mut r = crate::seg::SegRunner::new(out, "fuzz-layout", lo, hi);
        if !r.dead && r.real.is_some() {
            for x in [lo, hi, lo + (hi - lo) / 2, lo + (hi - lo) / 32] { r.step(&Op::new("index", &[x])); if r.dead { break; } }
        }
        if r.out.oracle_fails == before {
            r.fail(&["C14"], &format!("construction / coordinate mapping over [{}, {}] differs from the reference", lo, hi), "the reference layout", "see the operations");
        }
        r.end();
        return (n, true);
    }
    (n, false)
}
