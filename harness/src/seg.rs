//! Segment tree: transitions, finite tables, brute-force reference.
use crate::colls::*;
use crate::keys::*;
use crate::rng::Rng;
use crate::run::Out;
use std::io::Write;
use std::panic::{catch_unwind, AssertUnwindSafe};

fn jstr(s: &str) -> String { format!("\"{}\"", s.replace('\\', "\\\\").replace('"', "\\\"")) }

pub struct SegRunner<'a> {
    pub out: &'a mut Out,
    pub suite: String,
    pub lo: i64,
    pub hi: i64,
    pub real: Option<SegC>,
    /// reference: (a, b, id, exp)
    pub vals: Vec<(i64, i64, i64, i64)>,
    /// every value inserted since the last clear (the logical list of the C03 theorems)
    pub all_vals: Vec<(i64, i64, i64, i64)>,
    pub last_q: Option<i64>,
    pub ops: Vec<String>,
    pub hid: usize,
    pub last_t: i64,
    pub dead: bool,
}

pub fn ref_scale(lo: i64, hi: i64) -> Option<u32> {
    let len = (hi as i128) - (lo as i128) + 1;
    if len <= 16 { return None; }
    let mut s = 0u32;
    while (32i128 << s) < len { s += 1; }
    Some(s)
}

/// leaf interval of heap node n (0..63): (first bucket, last bucket)
pub fn node_interval(n: u32) -> (u32, u32) {
    let level = 31 - (n + 1).leading_zeros();
    let pos = n + 1 - (1 << level);
    let width = 32 >> level;
    (pos * width, (pos + 1) * width - 1)
}
pub fn ref_visit(c: u32, d: u32) -> u64 {
    let mut m = 0u64;
    for n in 0..63 { let (x, y) = node_interval(n); if x <= d && c <= y { m |= 1 << n; } }
    m
}
pub fn ref_place(a: u32, b: u32) -> u64 {
    let mut m = 0u64;
    for n in 0..63u32 {
        let (x, y) = node_interval(n);
        let inside = a <= x && y <= b;
        let parent_inside = if n == 0 { false } else { let (px, py) = node_interval((n - 1) / 2); a <= px && py <= b };
        if inside && !parent_inside { m |= 1 << n; }
    }
    m
}

impl<'a> SegRunner<'a> {
    pub fn new(out: &'a mut Out, suite: &str, lo: i64, hi: i64) -> SegRunner<'a> {
        let hid = out.next_hid; out.next_hid += 1;
        let mut r = SegRunner { out, suite: suite.into(), lo, hi, real: None, vals: vec![], all_vals: vec![], last_q: None, ops: vec![], hid, last_t: i64::MIN, dead: false };
        r.ops.push(format!("new {} {}", lo, hi));
        if r.out.flush { eprintln!("@new {} seg 0 0", r.suite); eprintln!("@op new {} {}", lo, hi); }
        let real = catch_unwind(|| SegC::new(lo, hi));
        let (o, st) = match real {
            Ok(Some(c)) => { let st = c.state().unwrap_or_else(|e| format!("ABSFAIL {}", e)); r.real = Some(c); ("some".to_string(), st) }
            Ok(None) => ("none".to_string(), "-".to_string()),
            Err(_) => { r.dead = true; ("PANIC".to_string(), "-".to_string()) }
        };
        r.emit(&format!("new {} {}", lo, hi), "-", &o, &st);
        // C14 oracle on construction
        r.out.eval("C14");
        let exp_scale = ref_scale(lo, hi);
        if r.dead {
            r.fail(&["C14", "C10"], &format!("construction over [{}, {}] panicked", lo, hi), if exp_scale.is_some() { "a tree" } else { "failure" }, "panic");
            return r;
        }
        let info = match catch_unwind(std::panic::AssertUnwindSafe(|| r.real.as_ref().map(|c| { let l = c.0.verif_layout(); (l, c.0.verif_index(lo), c.0.verif_index(hi)) }))) {
            Ok(i) => i,
            Err(_) => {
                r.dead = true; r.real = None;
                r.fail(&["C14", "C10"], &format!("coordinate-to-bucket mapping of an end point of [{}, {}] panicked", lo, hi), "bucket 0 / a bucket below 32", "panic");
                return r;
            }
        };
        match (info, exp_scale) {
            (None, None) => {}
            (Some(((mn, mx, sc, cnt), ilo, ihi)), Some(s)) => {
                if sc != s { r.fail(&["C14"], "bucket width is not the smallest power of two for which 32 buckets cover the domain", &format!("scale {}", s), &format!("scale {}", sc)); }
                if mn != lo || mx != hi { r.fail(&["C14"], "layout bounds", &format!("{} {}", lo, hi), &format!("{} {}", mn, mx)); }
                if ilo != 0 || ihi >= 32 { r.fail(&["C14"], "lo must map to bucket 0 and hi below 32", "0, <32", &format!("{} {}", ilo, ihi)); }
                // every place a range can be stored at / queried from is backed by storage
                let need = 63 - ref_visit(0, ihi.min(31)).leading_zeros() as usize; // highest place index in use
                if cnt < need + 1 { r.fail(&["C14", "C10"], "a place reachable by an in-domain range is not backed by storage", &format!("count >= {}", need + 1), &cnt.to_string()); }
            }
            (a, b) => { if !r.dead { r.fail(&["C14"], &format!("construction over [{}, {}] ({} points)", lo, hi, (hi as i128 - lo as i128 + 1)), if b.is_some() { "a tree" } else { "failure" }, if a.is_some() { "a tree" } else { "failure" }); } }
        }
        r
    }
    fn emit(&mut self, op: &str, pre: &str, o: &str, post: &str) {
        if pre.starts_with("S ") {
            let mut lv = format!("LV {} {} {} {}", self.last_q.map_or("none".to_string(), |t| t.to_string()), self.lo, self.hi, self.all_vals.len());
            for v in &self.all_vals { lv.push_str(&format!(" {} {} {} {}", v.0, v.1, v.2, v.3)); }
            writeln!(self.out.req, "seg {} | {} | {}", op, pre, lv).unwrap();
        } else {
            writeln!(self.out.req, "seg {} | {}", op, pre).unwrap();
        }
        writeln!(self.out.exp, "out={} | st={} | tr=", o, post).unwrap();
        writeln!(self.out.ctx, "H{} {}", self.hid, self.ops.len() - 1).unwrap();
        self.out.lines += 1;
        *self.out.op_counts.entry(format!("seg.{}", op.split(' ').next().unwrap())).or_insert(0) += 1;
    }
    pub fn fail(&mut self, props: &[&str], what: &str, expected: &str, observed: &str) {
        self.out.oracle_fails += 1;
        writeln!(self.out.oracle, "{{\"properties\":[{}],\"suite\":{},\"coll\":\"seg\",\"variant\":0,\"cap\":0,\"step\":{},\"what\":{},\"expected\":{},\"observed\":{},\"ops\":[{}]}}",
            props.iter().map(|p| jstr(p)).collect::<Vec<_>>().join(","), jstr(&self.suite), self.ops.len().saturating_sub(1), jstr(what), jstr(expected), jstr(observed),
            self.ops.iter().map(|o| jstr(o)).collect::<Vec<_>>().join(",")).unwrap();
    }
    pub fn end(&mut self) { writeln!(self.out.hist, "H{} seg 0 0 :: {}", self.hid, self.ops.join(" ; ")).unwrap(); }
    fn bucket(&self, x: i64) -> i64 { ((x as i128 - self.lo as i128) >> ref_scale(self.lo, self.hi).unwrap_or(0)) as i64 }

    /// C18: an operation that was interrupted by a panicking accessor while it was adding value `v` must have
    /// added it everywhere or nowhere: probe the whole domain and every single bucket at the current time and
    /// require all answers to agree with the content before the operation, or all with the content after it
    pub fn probe_all_or_nothing(&mut self, v: (i64, i64, i64, i64)) {
        let t = self.last_q.unwrap_or(0);
        let sc = ref_scale(self.lo, self.hi).unwrap_or(0);
        let mut probes: Vec<(i64, i64)> = vec![(self.lo, self.hi)];
        for b in 0..32i64 {
            let x = self.lo + (b << sc);
            if x <= self.hi { probes.push((x, x)); }
        }
        let (mut ok0, mut ok1) = (true, true);
        let mut seen_in: Vec<i64> = vec![]; let mut missing_in: Vec<i64> = vec![];
        for (c, d) in probes {
            let op = Op::new("query", &[c, d, t, -1]);
            cb_reset(None, false);
            let real = self.real.as_mut().unwrap();
            let res = catch_unwind(AssertUnwindSafe(|| real.apply(&op)));
            cb_take();
            self.out.eval("C18");
            let o = match res { Ok(o) => o, Err(_) => { self.dead = true; self.fail(&["C18", "C10"], "query after a caught panic panicked", "no panic", "panic"); return; } };
            let mut got: Vec<i64> = o.trim_matches(|c| c == '[' || c == ']').split(',').filter(|s| !s.is_empty()).map(|s| s.parse().unwrap()).collect();
            got.sort();
            let (bc, bd) = (self.bucket(c), self.bucket(d));
            let vis = |x: &(i64, i64, i64, i64)| x.3 >= t && self.bucket(x.0) <= bd && bc <= self.bucket(x.1);
            let mut e0: Vec<i64> = self.vals.iter().filter(|x| vis(x)).map(|x| x.2).collect();
            e0.sort();
            let mut e1 = e0.clone();
            if vis(&v) { e1.push(v.2); e1.sort(); }
            if got != e0 { ok0 = false; }
            if got != e1 { ok1 = false; }
            if vis(&v) { if got.contains(&v.2) { seen_in.push(bc); } else { missing_in.push(bc); } }
        }
        self.last_q = Some(t);
        if !(ok0 || ok1) {
            self.fail(&["C18"], "an insert interrupted by a panicking accessor left a partially applied update",
                "the value visible from every bucket of its range, or from none",
                &format!("value {} visible from probes starting at buckets {:?}, missing at {:?}", v.2, seen_in, missing_in));
        }
    }

    /// run `op` with a panic injected at the k-th callback; `false` = the callback index was not reached (the
    /// operation completed; the caller abandons this runner). Recorded as `@inject k ; op`, which `replay` repeats.
    pub fn step_injected(&mut self, op: &Op, k: usize) -> bool {
        if self.dead || self.real.is_none() { return false; }
        crate::run::progress();
        let pre = self.real.as_ref().unwrap().state().unwrap_or_else(|e| format!("ABSFAIL {}", e));
        cb_reset(Some(k), false);
        let real = self.real.as_mut().unwrap();
        let res = catch_unwind(AssertUnwindSafe(|| real.apply(op)));
        cb_take();
        self.ops.push(format!("@inject {}", k));
        self.ops.push(op.text());
        self.out.eval("C18");
        if res.is_ok() { return false; }
        if op.name == "query" {
            // tie: the store the panic leaves behind must be, copy by copy, the tree the model records for the
            // k-th `expiration()` call of this query
            let post = self.real.as_ref().unwrap().state().unwrap_or_else(|e| format!("ABSFAIL {}", e));
            let mut lv = format!("LV {} {} {} {}", self.last_q.map_or("none".to_string(), |t| t.to_string()), self.lo, self.hi, self.all_vals.len());
            for v in &self.all_vals { lv.push_str(&format!(" {} {} {} {}", v.0, v.1, v.2, v.3)); }
            writeln!(self.out.req, "seg {} | {} | {} | inj {}", op.text(), pre, lv, k).unwrap();
            writeln!(self.out.exp, "out=panic | st={} | tr=", post).unwrap();
            writeln!(self.out.ctx, "H{} {}", self.hid, self.ops.len() - 1).unwrap();
            self.out.lines += 1;
        }
        match op.name.as_str() {
            // (the unchanged code makes no callback while inserting: this is reached only if it starts to)
            "insert" => { let a = op.a.clone(); self.probe_all_or_nothing((a[0], a[1], a[2], a[3])); }
            // the interrupted query already purged copies expired at its time
            "query" => { let tq = op.a[2]; self.last_q = Some(self.last_q.map_or(tq, |x| x.max(tq))); }
            _ => {}
        }
        true
    }

    pub fn step(&mut self, op: &Op) -> String {
        if self.dead || self.real.is_none() { return "DEAD".into(); }
        crate::run::progress();
        let pre = self.real.as_ref().unwrap().state().unwrap_or_else(|e| format!("ABSFAIL {}", e));
        self.ops.push(op.text());
        if self.out.flush {
            eprintln!("@op {}", self.ops[self.ops.len() - 1]);
        }
        cb_reset(None, false);
        let real = self.real.as_mut().unwrap();
        let res = catch_unwind(AssertUnwindSafe(|| real.apply(op)));
        cb_take();
        let o = match res { Ok(s) => s, Err(e) => {
            let msg = if let Some(s) = e.downcast_ref::<String>() { s.clone() } else if let Some(s) = e.downcast_ref::<&str>() { s.to_string() } else { "panic".into() };
            self.dead = true; self.out.eval("C10"); self.fail(&["C10"], "operation within its contract panicked", "no panic", &msg); "PANIC".into() } };
        let post = self.real.as_ref().unwrap().state().unwrap_or_else(|e| format!("ABSFAIL {}", e));
        self.emit(&op.text(), &pre, &o, &post);
        if self.dead { return o; }
        let a = &op.a;
        match op.name.as_str() {
            "insert" => { self.vals.push((a[0], a[1], a[2], a[3])); self.all_vals.push((a[0], a[1], a[2], a[3])); }
            "clear" => {
                self.vals.clear(); self.all_vals.clear(); self.last_q = None; self.last_t = i64::MIN;
                self.out.eval("C12");
                let fresh = SegC::new(self.lo, self.hi).unwrap().state().unwrap();
                if fresh != post { self.fail(&["C12"], "state after clear differs from a new instance", &fresh, &post); }
            }
            "index" => {
                self.out.eval("C14");
                let e = self.bucket(a[0]);
                if e.to_string() != o { self.fail(&["C14"], &format!("bucket of coordinate {}", a[0]), &e.to_string(), &o); }
            }
            "query" => {
                let (c, d, t, take) = (a[0], a[1], a[2], a[3]);
                self.last_t = t;
                self.last_q = Some(t);
                let (bc, bd) = (self.bucket(c), self.bucket(d));
                let mut expected: Vec<i64> = self.vals.iter().filter(|v| v.3 >= t && self.bucket(v.0) <= bd && bc <= self.bucket(v.1)).map(|v| v.2).collect();
                expected.sort();
                let mut got: Vec<i64> = o.trim_matches(|c| c == '[' || c == ']').split(',').filter(|s| !s.is_empty()).map(|s| s.parse().unwrap()).collect();
                got.sort();
                self.out.eval("C03");
                if take < 0 {
                    // (after a clear the tree must answer like a new one: a wrong answer then is C12's as well)
                    let cleared = self.ops.iter().any(|o| o == "clear");
                    if got != expected { self.fail(if cleared { &["C03", "C12"] } else { &["C03"] }, &format!("query [{},{}] at time {}", c, d, t), &format!("{:?}", expected), &format!("{:?}", got)); }
                } else {
                    let mut dedup = got.clone(); dedup.dedup();
                    let want = (take as usize).min(expected.len());
                    if dedup.len() != got.len() || got.iter().any(|g| !expected.contains(g)) || got.len() != want {
                        self.fail(&["C03"], &format!("first {} results of query [{},{}] at time {}", take, c, d, t), &format!("{} distinct of {:?}", want, expected), &format!("{:?}", got));
                    }
                }
                // C16: after a fully consumed whole-domain query only copies with exp >= t remain
                if take < 0 && c == self.lo && d == self.hi {
                    self.out.eval("C16");
                    let chunks = self.real.as_ref().unwrap().0.verif_chunks();
                    let stale: Vec<(usize, i64, i32)> = chunks.iter().enumerate().flat_map(|(i, ch)| ch.iter().filter(|(v, _)| (v.exp as i64) < t).map(move |(v, _)| (i, v.id, v.exp))).collect();
                    if !stale.is_empty() { self.fail(&["C16"], &format!("copies left after a fully consumed whole-domain query at time {}", t), "none with expiration below the query time", &format!("{:?}", stale)); }
                    let copies: usize = chunks.iter().map(|c| c.len()).sum();
                    let unexpired = self.vals.iter().filter(|v| v.3 >= t).count();
                    if copies > 8 * unexpired { self.fail(&["C16"], "stored copies exceed 8 per unexpired value", &format!("<= {}", 8 * unexpired), &copies.to_string()); }
                    self.vals.retain(|v| v.3 >= t);
                }
            }
            _ => {}
        }
        o
    }
}

/// all 528 ranges: masks compared with the model bit for bit; brute-force characterisation as oracle
pub fn seg_mask_table(out: &mut Out) {
    let hid = out.next_hid; out.next_hid += 1;
    let mut n = 0;
    for a in 0..32u32 { for b in a..32u32 {
        let (p, v) = i_tree::seg::verif_masks(a, b);
        writeln!(out.req, "seg masks {} {} | -", a, b).unwrap();
        writeln!(out.exp, "out={} {} | st=- | tr=", p, v).unwrap();
        writeln!(out.ctx, "H{} {}", hid, n).unwrap();
        out.lines += 1; n += 1;
        out.eval("C15");
        let (rp, rv) = (ref_place(a, b), ref_visit(a, b));
        let mut bad = None;
        if p != rp { bad = Some(("place mask is not the set of maximal places inside the range", rp, p)); }
        else if v != rv { bad = Some(("visit mask is not the set of places meeting the range", rv, v)); }
        else if p.count_ones() > 8 { bad = Some(("more than 8 places", 8, p.count_ones() as u64)); }
        if let Some((what, e, o)) = bad {
            out.oracle_fails += 1;
            writeln!(out.oracle, "{{\"properties\":[\"C15\"],\"suite\":\"seg-masks\",\"coll\":\"seg\",\"variant\":0,\"cap\":0,\"step\":0,\"what\":{},\"expected\":\"{}\",\"observed\":\"{}\",\"ops\":[\"masks {} {}\"]}}", jstr(what), e, o, a, b).unwrap();
        }
    } }
    writeln!(out.hist, "H{} seg 0 0 :: {}", hid, (0..32).flat_map(|a| (a..32).map(move |b| format!("masks {} {}", a, b))).collect::<Vec<_>>().join(" ; ")).unwrap();
    // pairwise: place(a,b) & visit(c,d) != 0 <=> overlap
    for a in 0..32u32 { for b in a..32u32 { let p = i_tree::seg::verif_masks(a, b).0; for c in 0..32u32 { for d in c..32u32 {
        let v = i_tree::seg::verif_masks(c, d).1;
        out.eval("C15");
        if ((p & v) != 0) != (a <= d && c <= b) {
            out.oracle_fails += 1;
            writeln!(out.oracle, "{{\"properties\":[\"C15\",\"C03\"],\"suite\":\"seg-masks\",\"coll\":\"seg\",\"variant\":0,\"cap\":0,\"step\":0,\"what\":\"place and visit masks meet iff the ranges overlap\",\"expected\":\"{}\",\"observed\":\"{}\",\"ops\":[\"masks {} {}\",\"masks {} {}\"]}}", a <= d && c <= b, (p & v) != 0, a, b, c, d).unwrap();
        }
    } } } }
}

/// every (insert range, query range) pair on the 32-point domain, observed through a real tree
pub fn seg_pairs(out: &mut Out, stride: usize) {
    let mut idx = 0usize;
    for a in 0..32i64 { for b in a..32i64 {
        idx += 1;
        if idx % stride != 0 { continue; }
        let mut r = SegRunner::new(out, "seg-pairs", 0, 31);
        r.step(&Op::new("insert", &[a, b, 1, 5]));
        // copy count
        let copies: usize = r.real.as_ref().unwrap().0.verif_chunks().iter().map(|c| c.len()).sum();
        r.out.eval("C15");
        if copies > 8 || copies == 0 { r.fail(&["C15"], &format!("copies written by one insert of [{},{}]", a, b), "1..=8", &copies.to_string()); }
        for c in 0..32i64 { for d in c..32i64 { r.step(&Op::new("query", &[c, d, 0, -1])); } }
        r.end();
    } }
}

pub fn seg_layouts(out: &mut Out, rng: &mut Rng, thorough: bool) {
    let mut doms: Vec<(i64, i64)> = Vec::new();
    let offsets: Vec<i64> = vec![0, 1, -1, -7, -63, 100, -10240, 1 << 20, -(1 << 31), (1 << 31) - 200];
    for len in 1..=70i64 { for &o in &offsets { if thorough || len <= 40 || o == 0 || o == -63 { doms.push((o, o + len - 1)); } } }
    for k in 4..=40u32 { for d in [-1i64, 0, 1] { let len = (1i64 << k) + d; for &o in &[0i64, -(1i64 << (k - 1)), -5] { doms.push((o, o + len - 1)); } } }
    for k in [45u32, 50, 56, 60, 62] { for d in [-1i64, 0, 1] { let len = (1i64 << k) + d; doms.push((-(1i64 << (k - 1)), -(1i64 << (k - 1)) + len - 1)); doms.push((0, len - 1)); } }
    for (lo, hi) in doms {
        let mut r = SegRunner::new(out, "seg-layout", lo, hi);
        // (a tree built for a domain the reference refuses was reported by the construction oracle)
        if let (true, Some(sc)) = (r.real.is_some(), ref_scale(lo, hi)) {
            let w = 1i128 << sc;
            let mut xs: Vec<i64> = vec![lo, hi, lo + (hi - lo) / 2];
            for j in [1i128, 2, 15, 16, 31] { for d in [-1i128, 0] { let x = lo as i128 + j * w + d; if x >= lo as i128 && x <= hi as i128 { xs.push(x as i64); } } }
            for _ in 0..3 { xs.push(lo + rng.below(((hi as i128 - lo as i128 + 1).min(i64::MAX as i128)) as u64) as i64); }
            xs.sort(); xs.dedup();
            let mut prev: Option<i64> = None;
            for &x in &xs {
                let o = r.step(&Op::new("index", &[x]));
                if let Ok(i) = o.parse::<i64>() { if let Some(p) = prev { r.out.eval("C14"); if i < p { r.fail(&["C14"], "coordinate-to-bucket mapping is not monotone", &format!(">= {}", p), &i.to_string()); } } prev = Some(i); }
            }
            // single-point inserts and queries at the edges
            let mut id = 1;
            for &x in &[lo, hi] { r.step(&Op::new("insert", &[x, x, id, 10])); id += 1; }
            r.step(&Op::new("insert", &[lo, hi, id, 10]));
            for &x in &xs { r.step(&Op::new("query", &[x, x, 0, -1])); }
            r.step(&Op::new("query", &[lo, hi, 0, -1]));
        }
        r.end();
    }
}

pub fn seg_random(out: &mut Out, rng: &mut Rng, n_hist: usize, len: usize) {
    for h in 0..n_hist {
        let (lo, hi) = match h % 6 {
            0 => (0, 31), 1 => (-50, 49), 2 => (0, 128), 3 => (-10240, 15360), 4 => { let lo = rng.range(-1000, 1000); (lo, lo + rng.range(16, 4000)) }
            _ => { let lo = rng.range(-(1 << 20), 1 << 20); (lo, lo + rng.range(1 << 10, 1 << 22)) }
        };
        let mut r = SegRunner::new(out, "seg-rand", lo, hi);
        let mut t = 0i64;
        let mut id = 0i64;
        let span = hi - lo;
        let pick = |rng: &mut Rng| -> (i64, i64) {
            // whole-domain and near-whole ranges are stored at the top places of the heap
            match rng.below(12) {
                0 => return (lo, hi),
                1 => return (lo, hi - rng.below((span / 16).max(1) as u64) as i64),
                2 => return (lo + rng.below((span / 16).max(1) as u64) as i64, hi),
                _ => {}
            }
            let a = lo + rng.below(span as u64 + 1) as i64;
            let w = match rng.below(4) { 0 => 0, 1 => rng.below(4) as i64, 2 => rng.below((span / 8).max(1) as u64) as i64, _ => rng.below(span as u64 + 1) as i64 };
            (a, (a + w).min(hi))
        };
        for _ in 0..len {
            if r.dead { break; }
            if rng.chance(1, 4) { t += rng.range(0, 3); }
            let x = rng.below(100);
            if x < 50 {
                let (a, b) = pick(rng); id += 1;
                let exp = if rng.chance(1, 5) { t } else { t + rng.range(-2, 10) };
                r.step(&Op::new("insert", &[a, b, id, exp]));
            } else if x < 85 {
                let (c, d) = pick(rng);
                let take = if rng.chance(1, 3) { rng.range(0, 4) } else { -1 };
                r.step(&Op::new("query", &[c, d, t, take]));
            } else if x < 95 {
                r.step(&Op::new("query", &[lo, hi, t, -1]));
            } else if x < 98 {
                r.step(&Op::new("clear", &[]));
                if rng.chance(1, 2) { t = 0; }
            } else {
                r.step(&Op::new("index", &[lo + rng.below(span as u64 + 1) as i64]));
            }
        }
        r.step(&Op::new("query", &[lo, hi, t, -1]));
        r.end();
    }
}
