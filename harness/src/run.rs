//! Runs histories on the real collections, emits transitions for the Lean driver, evaluates oracles.
use crate::colls::*;
use crate::keys::*;
use crate::keys::InjectedPanic;
use crate::oracle::RefMap;
use std::collections::BTreeMap;
use std::fs::File;
use std::io::{BufWriter, Write};
use std::panic::{catch_unwind, AssertUnwindSafe};

pub struct Out {
    pub req: BufWriter<File>,
    pub exp: BufWriter<File>,
    pub ctx: BufWriter<File>,
    pub hist: BufWriter<File>,
    pub oracle: BufWriter<File>,
    pub lines: usize,
    pub next_hid: usize,
    pub op_counts: BTreeMap<String, usize>,
    pub oracle_evals: BTreeMap<String, usize>,
    pub oracle_fails: usize,
    pub max_entries: usize,
    pub size_hist: BTreeMap<usize, usize>,
    pub flush: bool,
    pub dir: String,
}

impl Out {
    pub fn new(dir: &str) -> Out {
        std::fs::create_dir_all(dir).unwrap();
        let f = |n: &str| BufWriter::new(File::create(format!("{}/{}", dir, n)).unwrap());
        Out {
            req: f("req.txt"), exp: f("exp.txt"), ctx: f("ctx.txt"), hist: f("hist.txt"), oracle: f("oracle.jsonl"),
            lines: 0, next_hid: 0, op_counts: BTreeMap::new(), oracle_evals: BTreeMap::new(), oracle_fails: 0,
            max_entries: 0, size_hist: BTreeMap::new(),
            flush: std::env::var("VERIF_FLUSH").is_ok(),
            dir: dir.to_string(),
        }
    }
    pub fn finish(&mut self) {
        self.req.flush().unwrap(); self.exp.flush().unwrap(); self.ctx.flush().unwrap();
        self.hist.flush().unwrap(); self.oracle.flush().unwrap();
    }
    pub fn eval(&mut self, prop: &str) { *self.oracle_evals.entry(prop.to_string()).or_insert(0) += 1; }
}

fn jstr(s: &str) -> String {
    let mut o = String::from("\"");
    for c in s.chars() {
        match c { '"' => o.push_str("\\\""), '\\' => o.push_str("\\\\"), '\n' => o.push_str("\\n"), c if (c as u32) < 32 => o.push(' '), c => o.push(c) }
    }
    o.push('"');
    o
}

pub struct Runner<'a> {
    pub out: &'a mut Out,
    pub coll: String,
    pub variant: u32,
    pub cap: usize,
    pub real: Box<dyn Coll>,
    pub refm: RefMap,
    pub twin: Option<Box<dyn Coll>>,
    pub ops: Vec<Op>,
    pub hid: usize,
    pub emit: bool,
    pub oracles: bool,
    /// handles acquired since the last deletion: key -> handle (C17)
    pub handles: BTreeMap<i64, u32>,
    pub dead: bool,
    pub expiring: bool,
    pub is_list: bool,
    pub suite: String,
    pub last_count: usize,
    /// property every failure is additionally attributed to (C18 while continuing after an injected panic)
    pub also: Option<&'static str>,
    /// emit raw arena snapshots for the arena-level model instead of abstract states
    pub raw: bool,
    /// search mode (VERIF_POSTMORTEM=n): keep applying up to n more operations to a collection whose
    /// structure oracle already failed, so that the *consequences* (wrong answers, wrong handles) are observed
    pub pm_left: usize,
    pub in_pm: bool,
    /// order of the bulk load of the `export-size` suite (0 ascending, 1 descending), if replayable
    pub bulk_order: Option<i64>,
}

/// progress counter for the watchdog: bumped at every operation applied to the real code
pub static PROGRESS: std::sync::atomic::AtomicU64 = std::sync::atomic::AtomicU64::new(0);
#[inline] pub fn progress() { PROGRESS.fetch_add(1, std::sync::atomic::Ordering::Relaxed); }

/// a single operation of the real code that makes no progress for `secs` seconds is a hang (C10): say so and
/// leave, instead of waiting for the orchestrator's suite timeout
pub fn start_watchdog(secs: u64) {
    std::thread::spawn(move || {
        let mut last = PROGRESS.load(std::sync::atomic::Ordering::Relaxed);
        let mut idle = 0u64;
        loop {
            std::thread::sleep(std::time::Duration::from_secs(1));
            let now = PROGRESS.load(std::sync::atomic::Ordering::Relaxed);
            if now == last { idle += 1; } else { idle = 0; last = now; }
            if idle >= secs {
                eprintln!("@hang: the current operation has not returned for {} s", secs);
                std::process::exit(97);
            }
        }
    });
}

pub fn silent_panics() {
    // caught panics are expected (they are reported as answers); with VERIF_FLUSH=1 (the crash-locating
    // re-run) every panic message goes to stderr so that an uncaught one can be located
    if std::env::var("VERIF_FLUSH").is_ok() {
        std::panic::set_hook(Box::new(|info| { eprintln!("panic: {}", info); }));
    } else {
        std::panic::set_hook(Box::new(|_| {}));
    }
}

impl<'a> Runner<'a> {
    pub fn new(out: &'a mut Out, suite: &str, coll: &str, cap: usize, variant: u32) -> Runner<'a> {
        let hid = out.next_hid;
        out.next_hid += 1;
        Runner {
            out, coll: coll.to_string(), variant, cap, real: make(coll, cap, variant), refm: RefMap::new(cap),
            twin: None, ops: vec![], hid, emit: true, oracles: true, handles: BTreeMap::new(), dead: false,
            expiring: coll == "key" || coll == "klist", is_list: coll.ends_with("list"), suite: suite.to_string(), last_count: 0, also: None, raw: suite.starts_with("arena") || suite.starts_with("exh-a"),
            pm_left: std::env::var("VERIF_POSTMORTEM").ok().and_then(|v| v.parse().ok()).unwrap_or(0), in_pm: false, bulk_order: None,
        }
    }

    pub fn fail(&mut self, props: &[&str], what: &str, expected: &str, observed: &str) {
        if !self.emit { return; }
        self.out.oracle_fails += 1;
        let mut props: Vec<&str> = props.to_vec();
        if let Some(a) = self.also { if !props.contains(&a) { props.push(a); } }
        let ops: Vec<String> = self.ops.iter().map(|o| jstr(&o.text())).collect();
        writeln!(
            self.out.oracle,
            "{{\"properties\":[{}],\"suite\":{},\"coll\":{},\"variant\":{},\"cap\":{},\"step\":{},\"what\":{},\"expected\":{},\"observed\":{},\"ops\":[{}]}}",
            props.iter().map(|p| jstr(p)).collect::<Vec<_>>().join(","),
            jstr(&self.suite), jstr(&self.coll), self.variant, self.cap, self.ops.len().saturating_sub(1),
            jstr(what), jstr(expected), jstr(observed), ops.join(",")
        ).unwrap();
        if self.in_pm || self.out.flush { self.out.oracle.flush().unwrap(); }
    }

    /// random histories of the expiring tree end with the public, consuming `into_ordered_vec` (the tie uses the
    /// non-consuming hook so that histories can go on; the wrapper itself is checked here, by the C07 / C19 oracles)
    pub fn finish_key(&mut self) {
        if self.coll == "key" && !self.dead && !self.in_pm && self.emit && !self.ops.is_empty() {
            let t = self.refm.last_t.max(0);
            self.step(&Op::new("consume", &[t]), None);
        }
    }

    pub fn end(&mut self) {
        let ops: Vec<String> = self.ops.iter().map(|o| o.text()).collect();
        writeln!(self.out.hist, "H{} {} {} {} :: {}", self.hid, self.coll, self.variant, self.cap, ops.join(" ; ")).unwrap();
    }

    fn content_props(&self) -> Vec<&'static str> {
        match self.coll.as_str() {
            "map" => vec!["C04"], "set" => vec!["C05"], "key" => vec!["C01"],
            _ => vec!["C13"],
        }
    }

    /// Apply one op. `expect_key`: the key the handle argument is supposed to designate.
    pub fn step(&mut self, op: &Op, expect_key: Option<i64>) -> String {
        if self.dead { return "DEAD".into(); }
        if op.name == "bulk" {
            // `bulk n order`: n entries (key k, expiration 10, value k) inserted at time 0, ascending (0) or descending (1)
            let n = op.a[0];
            let keys: Vec<i64> = if op.a.get(1) == Some(&1) { (0..n).rev().collect() } else { (0..n).collect() };
            let (e, o) = (self.emit, self.oracles);
            self.emit = false; self.oracles = false;
            for k in keys { let ins = Op::new("insert", &[k, 10, k, 0]); self.step_light(&ins); self.ref_update(&ins, None); if self.dead { break; } }
            self.emit = e; self.oracles = o;
            self.ops.push(op.clone());
            return "ok".into();
        }
        progress();
        if self.in_pm {
            if self.pm_left == 0 { self.dead = true; return "DEAD".into(); }
            self.pm_left -= 1;
        }
        *self.out.op_counts.entry(format!("{}.{}", self.coll, op.name)).or_insert(0) += 1;
        let emit_tie = self.emit && !self.in_pm && op.name != "consume";
        let pre_state = if emit_tie { Some(if self.raw { self.real.raw().ok_or(String::from("no raw state")) } else { self.real.state() }) } else { None };
        let pre_entries = self.real.entries().unwrap_or_default();
        self.ops.push(op.clone());
        if self.out.flush {
            // incremental: `@new` starts a history, every operation is one `@op` line (the orchestrator
            // reassembles the last history; printing the whole history per operation was quadratic)
            if self.ops.len() == 1 { eprintln!("@new {} {} {} {}", self.suite, self.coll, self.variant, self.cap); }
            eprintln!("@op {}", op.text());
        }
        cb_reset(None, true);
        let real = &mut self.real;
        let res = catch_unwind(AssertUnwindSafe(|| real.apply(op)));
        let (count, log) = cb_take();
        self.last_count = count;
        let out = match res {
            Ok(s) => s,
            Err(e) => {
                let msg = if let Some(s) = e.downcast_ref::<String>() { s.clone() } else if let Some(s) = e.downcast_ref::<&str>() { s.to_string() } else { "panic".into() };
                self.dead = true;
                self.out.eval("C10");
                // no result was produced: the property that governs this operation's result is violated too
                let mut props: Vec<&str> = vec!["C10"];
                match (self.coll.as_str(), op.name.as_str()) {
                    ("key", "export") | ("key", "consume") => { props.push("C07"); props.push("C19"); }
                    ("key", "get") => props.push("C06"),
                    ("key", _) => props.push("C01"),
                    ("map", "fil") | ("map", "filby") | ("set", "fil") | ("set", "filby") | (_, "validx") | (_, "setidx") | (_, "delidx") if !self.is_list => props.push("C08"),
                    ("set", "after") | ("set", "before") => props.push("C09"),
                    ("map", _) => props.push("C04"),
                    ("set", _) => props.push("C05"),
                    _ => props.push("C13"),
                }
                self.fail(&props, "operation within its contract panicked", "no panic", &msg);
                format!("PANIC")
            }
        };
        let post_state = self.real.state();
        let tr = match self.coll.as_str() {
            "key" => log.iter().filter(|e| e.0 != 'k').map(|e| format!("{}:{}:{}", e.0, e.1, e.2)).collect::<Vec<_>>().join(" "),
            "map" | "set" => format!("n={}", count),
            _ => String::new(),
        };
        if emit_tie {
            let pre = match pre_state.unwrap() { Ok(s) => s, Err(e) => format!("ABSFAIL {}", e) };
            let post = match &post_state { Ok(s) => s.clone(), Err(e) => format!("ABSFAIL {}", e) };
            if self.raw {
                let post = self.real.raw().unwrap_or_default();
                writeln!(self.out.req, "a{} {} | {} | {}", self.coll, op.text(), pre, self.real.dflt()).unwrap();
                writeln!(self.out.exp, "out={} | st={} | tr=", out, post).unwrap();
                writeln!(self.out.ctx, "H{} {}", self.hid, self.ops.len() - 1).unwrap();
                self.out.lines += 1;
                // the capacity `height()` reserves for the export's stack, on the arena as it is now
                // (`Arena.heightCap`, `arena_export_stack_capacity`)
                if op.name == "insert" || op.name == "export" {
                    if let Some(sc) = self.real.stack_capacity() {
                        writeln!(self.out.req, "a{} stackcap | {} | {}", self.coll, post, self.real.dflt()).unwrap();
                        writeln!(self.out.exp, "out={} | st={} | tr=", sc, post).unwrap();
                        writeln!(self.out.ctx, "H{} {}", self.hid, self.ops.len() - 1).unwrap();
                        self.out.lines += 1;
                    }
                }
            } else {
            writeln!(self.out.req, "{} {} | {}", self.coll, op.text(), pre).unwrap();
            match self.real.abs_note() {
                Some(n) => writeln!(self.out.exp, "out={} | st={} | tr={} | abs={}", out, post, tr, n).unwrap(),
                None => writeln!(self.out.exp, "out={} | st={} | tr={}", out, post, tr).unwrap(),
            }
            writeln!(self.out.ctx, "H{} {}", self.hid, self.ops.len() - 1).unwrap();
            self.out.lines += 1;
            }
        }
        if self.dead { return out; }
        if self.oracles {
            self.check(op, &out, &pre_entries, expect_key, &log, count);
        }
        // C12 twin: a fresh instance created at the last clear must behave identically
        if op.name == "clear" {
            if self.coll != "klist" || self.real.state().map_or(false, |s| s != "-") {
                self.twin = Some(make(&self.coll, self.cap, self.variant));
                if self.oracles {
                    self.out.eval("C12");
                    // empty answers
                    let st = self.real.entries().unwrap_or_default();
                    if !st.is_empty() { self.fail(&["C12"], "collection not empty after clear", "[]", &format!("{:?}", st)); }
                    if self.is_list {
                        let fresh = self.twin.as_ref().unwrap().state().unwrap_or_default();
                        let mine = self.real.state().unwrap_or_default();
                        if fresh != mine { self.fail(&["C12"], "state after clear differs from a new instance", &fresh, &mine); }
                    }
                }
            }
        } else if self.twin.is_some() {
            self.step_twin(op, &out, &pre_entries);
        }
        out
    }

    fn step_twin(&mut self, op: &Op, out: &str, pre_entries: &[(u32, i64, i64, i64)]) {
        let takes_handle = matches!(op.name.as_str(), "delidx" | "validx" | "setidx" | "after" | "before");
        let gives_handle = matches!(op.name.as_str(), "fil" | "filby" | "after" | "before");
        let twin = self.twin.as_mut().unwrap();
        let tw_pre = twin.entries().unwrap_or_default();
        let mut top = op.clone();
        if takes_handle {
            let key = pre_entries.iter().find(|e| e.0 as i64 == op.a[0]).map(|e| e.1);
            match key.and_then(|k| tw_pre.iter().find(|e| e.1 == k)) {
                Some(e) => top.a[0] = e.0 as i64,
                // a read through a handle that cannot be mapped to the twin is skipped; a write ends the comparison
                None => { if !matches!(op.name.as_str(), "validx" | "after" | "before") { self.twin = None; } return; }
            }
        }
        cb_reset(None, false);
        let res = catch_unwind(AssertUnwindSafe(|| twin.apply(&top)));
        cb_take();
        let tout = match res { Ok(s) => s, Err(_) => "PANIC".to_string() };
        let (a, b) = if gives_handle {
            // (a collection whose links can no longer be walked: what a handle designates is unknown)
            let post = match self.real.entries() { Ok(p) => p, Err(_) => return };
            let tpost = self.twin.as_ref().unwrap().entries().unwrap_or_default();
            let d = |o: &str, es: &[(u32, i64, i64, i64)]| -> String {
                if o == "none" { "none".into() } else { es.iter().find(|e| e.0.to_string() == o).map_or("dangling".into(), |e| format!("key{}", e.1)) }
            };
            (d(out, &post), d(&tout, &tpost))
        } else if op.name == "export" || op.name == "consume" {
            // capacity of the result is not part of the observable result
            (out.split(" cap=").next().unwrap().to_string(), tout.split(" cap=").next().unwrap().to_string())
        } else { (out.to_string(), tout) };
        self.out.eval("C12");
        if a != b {
            self.fail(&["C12"], &format!("after clear, `{}` answers differently from a new instance", op.text()), &b, &a);
        }
        // contents must agree as well
        // (a collection whose links can no longer be walked is compared by its answers only)
        let e1: Vec<_> = match self.real.entries() { Ok(es) => es.iter().map(|e| (e.1, e.2, e.3)).collect(), Err(_) => return };
        let e2: Vec<_> = self.twin.as_ref().unwrap().entries().unwrap_or_default().iter().map(|e| (e.1, e.2, e.3)).collect();
        if e1 != e2 && !self.expiring {
            self.fail(&["C12"], "after clear, contents differ from a new instance with the same history", &format!("{:?}", e2), &format!("{:?}", e1));
        }
    }

    /// Run `op` with a panic injected into its `k`-th user callback (C18). Returns false when the
    /// history cannot be continued (callback not reached, a different panic, torn collection).
    pub fn step_injected(&mut self, op: &Op, k: usize, ek: Option<i64>, modelled: bool) -> bool {
        let coll = self.coll.clone();
        let pre_state = self.real.state();
        let pre_raw = if self.raw { self.real.raw() } else { None };
        let pre_entries = self.real.entries().unwrap_or_default();
        // clean twin to learn the contents after the completed operation
        let post_entries = {
            let mut c = make(&coll, self.cap, self.variant);
            cb_reset(None, false);
            for o in self.ops.iter().filter(|o| o.name != "@inject") { c.apply(o); }
            c.apply(op);
            cb_take();
            c.entries().unwrap_or_default()
        };
        self.ops.push(Op::new("@inject", &[k as i64]));
        self.ops.push(op.clone());
        // an interrupted operation cannot be reproduced on the twin instance (it may have purged expired entries
        // physically before the panic): the comparison with a new instance (C12) ends here
        self.twin = None;
        cb_reset(Some(k), true);
        let real = &mut self.real;
        let res = catch_unwind(AssertUnwindSafe(|| real.apply(op)));
        cb_take();
        let panicked = match &res { Err(e) => e.is::<InjectedPanic>(), Ok(_) => false };
        self.out.eval("C18");
        self.also = Some("C18");
        if !panicked {
            match res {
                // not a property failure: the injection point does not exist in this (shrunk / replayed) history
                Ok(_) => { self.also = None; self.fail(&["REPLAY"], &format!("callback #{} of `{}` was not reached", k, op.text()), "panic", "completed") }
                Err(e) => { let msg = e.downcast_ref::<String>().cloned().or(e.downcast_ref::<&str>().map(|s| s.to_string())).unwrap_or("?".into()); self.fail(&["C18", "C10"], &format!("a different panic while unwinding from callback #{} of `{}`", k, op.text()), "injected panic only", &msg) }
            }
            self.dead = true;
            return false;
        }
        let post_state = self.real.state();
        if modelled && self.emit && self.raw {
            // arena level: the raw arena the panic leaves behind must be, field by field, the arena the
            // instrumented pointer-code model records for that callback
            if let (Some(pre), Some(post)) = (pre_raw, self.real.raw()) {
                writeln!(self.out.req, "a{} {} | {} | {} | inj {}", coll, op.text(), pre, self.real.dflt(), k).unwrap();
                writeln!(self.out.exp, "out=panic | st={} | tr=", post).unwrap();
                writeln!(self.out.ctx, "H{} {}", self.hid, self.ops.len() - 1).unwrap();
                self.out.lines += 1;
            }
        } else if modelled && self.emit {
            let pre = pre_state.unwrap_or_else(|e| format!("ABSFAIL {}", e));
            let post = match &post_state { Ok(s) => s.clone(), Err(e) => format!("ABSFAIL {}", e) };
            writeln!(self.out.req, "{} {} | {} | inj {}", coll, op.text(), pre, k).unwrap();
            match self.real.abs_note() {
                Some(n) => writeln!(self.out.exp, "out=panic | st={} | tr=* | abs={}", post, n).unwrap(),
                None => writeln!(self.out.exp, "out=panic | st={} | tr=*", post).unwrap(),
            }
            writeln!(self.out.ctx, "H{} {}", self.hid, self.ops.len() - 1).unwrap();
            self.out.lines += 1;
        }
        // oracle: structurally valid and contents = before or after
        if let Some(Err(e)) = self.real.structure() { self.fail(&["C18", "C02"], &format!("structure after a panic in callback #{} of `{}`", k, op.text()), "valid tree", &e); self.dead = true; return false; }
        if let Err(e) = &post_state { self.fail(&["C18", "C11"], &format!("arena after a panic in callback #{} of `{}`", k, op.text()), "consistent links and slots", e); self.dead = true; return false; }
        if let Some(n) = self.real.abs_note() { self.fail(&["C18", "C11"], &format!("slots after a panic in callback #{} of `{}`", k, op.text()), "sentinel, tree and free list partition the arena", &n); }
        let now = self.real.entries().unwrap_or_default();
        let proj = |es: &[(u32, i64, i64, i64)], t: Option<i64>| -> Vec<(i64, i64, i64)> { es.iter().filter(|e| t.map_or(true, |t| e.2 > t)).map(|e| (e.1, e.2, e.3)).collect() };
        let t = if self.expiring { match op.name.as_str() { "insert" => Some(op.a[3]), "clear" | "isempty" => None, _ => Some(op.a[0]) } } else { None };
        let is_pre = proj(&now, t) == proj(&pre_entries, t);
        let is_post = proj(&now, t) == proj(&post_entries, t);
        if !is_pre && !is_post {
            self.fail(&["C18"], &format!("contents after a panic in callback #{} of `{}` are neither those before nor those after the operation", k, op.text()),
                &format!("{:?} or {:?}", proj(&pre_entries, t), proj(&post_entries, t)), &format!("{:?}", proj(&now, t)));
            self.dead = true;
            return false;
        }
        if is_post && !is_pre { self.ref_update(op, ek); }
        if let Some(t) = t { self.refm.last_t = self.refm.last_t.max(t); }
        true
    }

    /// apply without any bookkeeping (bulk loading of very large trees)
    pub fn step_light(&mut self, op: &Op) {
        progress();
        if self.oracles { self.step(op, None); return; }
        cb_reset(None, false);
        let real = &mut self.real;
        if catch_unwind(AssertUnwindSafe(|| real.apply(op))).is_err() { self.dead = true; }
        cb_take();
    }
    /// export of a bulk-loaded tree: capacity bound and length only
    pub fn step_export_only(&mut self, op: &Op, n: usize) -> String {
        if self.dead { return "DEAD".into(); }
        if self.emit { return self.step(op, None); }
        // replayable form: `bulk n order` (the bulk load in ascending / descending key order) followed by the export
        match self.bulk_order {
            Some(o) => { self.ops.push(Op::new("bulk", &[n as i64, o])); self.ops.push(op.clone()); }
            None => self.ops.push(Op::new(&format!("[bulk insert of {} keys in random order] export", n), &op.a)),
        }
        cb_reset(None, false);
        let real = &mut self.real;
        let res = catch_unwind(AssertUnwindSafe(|| real.apply(op)));
        cb_take();
        self.emit = true;
        self.out.eval("C19");
        match res {
            Ok(o) => {
                let cap: usize = o.split(" cap=").nth(1).and_then(|c| c.parse().ok()).unwrap_or(usize::MAX);
                let len = o.matches(',').count() + if o.starts_with("[]") { 0 } else { 1 };
                if cap > 2 * n + 8 { self.fail(&["C19"], &format!("export of {} stored entries", n), &format!("capacity <= {}", 2 * n + 8), &cap.to_string()); }
                if len != n { self.fail(&["C07"], &format!("export of {} live entries", n), &n.to_string(), &len.to_string()); }
                format!("len={} cap={}", len, cap)
            }
            Err(_) => { self.fail(&["C19", "C10", "C07"], &format!("export of {} stored entries panicked", n), "a vector", "panic"); "PANIC".into() }
        }
    }

    /// apply the reference semantics of `op` (used when an injected panic left the post-state)
    pub fn ref_update(&mut self, op: &Op, expect_key: Option<i64>) {
        let a = &op.a;
        match op.name.as_str() {
            "insert" => { if self.expiring { self.refm.m.insert(a[0], (a[1], a[2])); } else { self.refm.m.insert(a[0], (0, a[1])); } }
            "delete" => { self.refm.m.remove(&a[0]); self.handles.clear(); }
            "clear" => { self.refm.m.clear(); self.handles.clear(); }
            "setidx" => { if let Some(k) = expect_key { if let Some(x) = self.refm.m.get_mut(&k) { x.1 = a[1]; } } }
            "delidx" => { if let Some(k) = expect_key { self.refm.m.remove(&k); } self.handles.clear(); }
            _ => {}
        }
    }

    fn check(&mut self, op: &Op, out: &str, pre_entries: &[(u32, i64, i64, i64)], expect_key: Option<i64>, log: &[(char, i64, i64)], _count: usize) {
        let a = op.a.clone();
        let cp = self.content_props();
        let hp: Vec<&'static str> = if self.is_list { vec!["C13"] } else { vec!["C08"] };
        let np: Vec<&'static str> = if self.is_list { vec!["C13"] } else { vec!["C09"] };
        // ---- structure / slots (trees)
        let mut broken = false;
        if let Some(st) = self.real.structure() {
            self.out.eval("C02");
            if let Err(e) = st {
                self.fail(&["C02"], "red-black / search-tree / link invariant broken", "valid red-black search tree", &e);
                // a stale parent field alone does not stop the history (neighbour steps may now go wrong: C09)
                if !e.contains("PARENT-LINK") { broken = true; }
            }
        }
        let mut post_entries = vec![];
        if let Some(ab) = self.real.abs() {
            self.out.eval("C11");
            match ab {
                Err(e) => {
                    self.fail(&["C11", "C02"], "arena links broken", "mutually consistent parent/child links, sentinel linked nowhere", &e);
                    // search mode: the answers of the following operations are still compared with the reference
                    if self.in_pm || self.pm_left > 0 { broken = true; } else { self.dead = true; return; }
                }
                Ok(ab) => {
                    if let Some(e) = &ab.links_err {
                        self.fail(&["C02"], "parent / child links inconsistent", "every parent field equals the slot the node is linked from", e);
                    }
                    if let Some(e) = &ab.slots_err {
                        self.fail(&["C11"], "slot partition broken", "sentinel, tree and free list partition the arena", e);
                        // a lost slot is harmless for what follows; a slot that is free and in use is not
                        if !e.contains("(lost)") { broken = true; }
                    }
                    let stored = ab.inorder.len();
                    self.refm.peak = self.refm.peak.max(stored);
                    let bound = self.cap.max(8).max(3 * (self.refm.peak + 1));
                    if ab.buf_len > bound {
                        self.fail(&["C11"], "arena grew beyond max(initial, 3*(peak+1))", &bound.to_string(), &ab.buf_len.to_string());
                    }
                    if op.name == "clear" && ab.unused_len + 1 != ab.buf_len {
                        self.fail(&["C11"], "clear did not return every slot", &(ab.buf_len - 1).to_string(), &ab.unused_len.to_string());
                    }
                    self.out.max_entries = self.out.max_entries.max(stored);
                    *self.out.size_hist.entry(if stored < 8 { stored } else if stored < 64 { 8 } else if stored < 512 { 64 } else { 512 }).or_insert(0) += 1;
                    post_entries = ab.inorder;
                }
            }
        } else {
            post_entries = self.real.entries().unwrap_or_default();
        }
        // do not keep using a collection whose structure is already broken (after the checks below);
        // the tie gets one last, harmless transition (`isempty`) from the broken state, so that every property
        // whose theorems assume well-formedness of this state sees that their hypothesis fails on the real code
        if broken && !self.in_pm {
            if self.pm_left > 0 { self.in_pm = true; }
            else {
                self.dead = true;
                if self.emit && !self.raw {
                    if let Ok(st) = self.real.state() {
                        let real = &mut self.real;
                        let o = catch_unwind(AssertUnwindSafe(|| real.apply(&Op::new("isempty", &[])))).unwrap_or("PANIC".into());
                        self.ops.push(Op::new("isempty", &[]));
                        writeln!(self.out.req, "{} isempty | {}", self.coll, st).unwrap();
                        match self.real.abs_note() {
                            Some(n) => writeln!(self.out.exp, "out={} | st={} | tr= | abs={}", o, st, n).unwrap(),
                            None => writeln!(self.out.exp, "out={} | st={} | tr=", o, st).unwrap(),
                        }
                        writeln!(self.out.ctx, "H{} {}", self.hid, self.ops.len() - 1).unwrap();
                        self.out.lines += 1;
                    }
                }
            }
        }
        let t_opt: Option<i64> = if self.expiring {
            match op.name.as_str() { "insert" => Some(a[3]), "fl" | "fle" | "fleby" | "get" | "export" | "consume" => Some(a[0]), _ => None }
        } else { None };
        // ---- update reference and check outputs
        match op.name.as_str() {
            "insert" => {
                if self.expiring { self.refm.m.insert(a[0], (a[1], a[2])); self.refm.last_t = a[3]; }
                else { self.refm.m.insert(a[0], (0, a[1])); }
                if out != "ok" { self.fail(&cp, "insert output", "ok", out); }
            }
            "delete" => { if self.refm.m.remove(&a[0]).is_some() { self.handles.clear(); } }
            "clear" => { self.refm.m.clear(); self.refm.last_t = i64::MIN; self.handles.clear(); }
            "get" if !self.expiring => {
                self.out.eval(cp[0]);
                let e = self.refm.m.get(&a[0]).map(|x| x.1.to_string()).unwrap_or("none".into());
                if e != out { self.fail(&cp, &format!("lookup of key {}", a[0]), &e, out); }
            }
            "isempty" => {
                self.out.eval(cp[0]);
                let phys_empty = pre_entries.is_empty();
                let e = if self.expiring { phys_empty.to_string() } else { self.refm.m.is_empty().to_string() };
                if e != out { self.fail(&cp, "is_empty", &e, out); }
            }
            "fil" | "filby" => {
                self.out.eval(hp[0]);
                let q = if op.name == "fil" { 2 * a[0] } else { a[0] };
                let e = self.refm.pred_q(q, false, None).map(|x| format!("key{}", x.0)).unwrap_or("none".into());
                let o = if out == "none" { "none".to_string() } else { post_entries.iter().find(|x| x.0.to_string() == out).map_or("dangling-handle".into(), |x| format!("key{}", x.1)) };
                if e != o { self.fail(&hp, &format!("predecessor handle for `{}`", op.text()), &e, &o); }
                if out != "none" { if let Ok(h) = out.parse::<u32>() { if let Some(x) = post_entries.iter().find(|x| x.0 == h) { self.handles.insert(x.1, h); } } }
            }
            "validx" => {
                self.out.eval("C17");
                if let Some(k) = expect_key {
                    let e = self.refm.m.get(&k).map(|x| x.1.to_string()).unwrap_or("missing".into());
                    if e != out { self.fail(if self.is_list { &["C13"] } else { &["C17", "C08"] }, &format!("read through handle {} held for key {}", a[0], k), &e, out); }
                }
            }
            "setidx" | "delidx" => {
                // what the handle really designated before the operation
                let actual = pre_entries.iter().find(|e| e.0 as i64 == a[0]).map(|e| e.1);
                if let (Some(k), Some(act)) = (expect_key, actual) {
                    if k != act && !self.is_list {
                        self.out.eval("C17");
                        self.fail(&["C17"], &format!("handle {} held for key {} designates another entry when used by `{}`", a[0], k, op.text()), &format!("key{}", k), &format!("key{}", act));
                    }
                }
                let target = actual.or(expect_key);
                if op.name == "setidx" {
                    if let Some(k) = target { if let Some(x) = self.refm.m.get_mut(&k) { x.1 = a[1]; } }
                } else {
                    if let Some(k) = target { self.refm.m.remove(&k); }
                    self.handles.clear();
                }
            }
            "after" | "before" => {
                self.out.eval(np[0]);
                if let Some(k) = expect_key {
                    let e = if op.name == "after" { self.refm.m.range(k + 1..).next().map(|x| *x.0) } else { self.refm.m.range(..k).next_back().map(|x| *x.0) };
                    let e = e.map(|k| format!("key{}", k)).unwrap_or("none".into());
                    let o = if out == "none" { "none".to_string() } else { post_entries.iter().find(|x| x.0.to_string() == out).map_or("dangling-handle".into(), |x| format!("key{}", x.1)) };
                    if e != o { self.fail(&np, &format!("neighbour step `{}` from key {}", op.name, k), &e, &o); }
                }
            }
            "fl" | "fle" | "fleby" | "get" => {
                let t = a[0];
                self.refm.last_t = t;
                let (prop, e) = match op.name.as_str() {
                    "fl" => ("C01", self.refm.pred_q(2 * a[1], true, Some(t)).map(|x| x.2)),
                    "fle" => ("C01", self.refm.pred_q(2 * a[1], false, Some(t)).map(|x| x.2)),
                    "fleby" => ("C01", self.refm.pred_q(a[1], false, Some(t)).map(|x| x.2)),
                    _ => ("C06", self.refm.m.get(&a[1]).filter(|x| x.0 > t).map(|x| x.1)),
                };
                self.out.eval(prop);
                let e = e.map(|v| v.to_string()).unwrap_or("none".into());
                if e != out { self.fail(if self.is_list { &["C13"] } else if prop == "C01" { &["C01"] } else { &["C06"] }, &format!("`{}` at time {}", op.text(), t), &e, out); }
            }
            "export" | "consume" => {
                let t = a[0];
                self.refm.last_t = t;
                self.out.eval("C07");
                let e = format!("[{}]", self.refm.live(t).iter().map(|x| x.2.to_string()).collect::<Vec<_>>().join(","));
                let o = out.split(" cap=").next().unwrap();
                if e != o { self.fail(if self.is_list { &["C13", "C07"] } else { &["C07"] }, &format!("ordered export at time {}", t), &e, o); }
                if let Some(c) = out.split(" cap=").nth(1) {
                    self.out.eval("C19");
                    let cap: usize = c.parse().unwrap_or(usize::MAX);
                    let n = pre_entries.len();
                    if cap > 2 * n + 8 { self.fail(&["C19"], &format!("export of {} stored entries", n), &format!("capacity <= {}", 2 * n + 8), &cap.to_string()); }
                }
                self.refm.purge(t);
                // the consumed tree is gone: a new one has taken its place
                if op.name == "consume" { self.refm.m.clear(); self.handles.clear(); }
            }
            _ => {}
        }
        // ---- callbacks only on live keys (C20)
        if let Some(t) = t_opt {
            self.out.eval("C20");
            let probe_key = if op.name == "insert" { Some((a[0], a[1])) } else { None };
            for ev in log {
                if ev.0 == 'c' && ev.2 <= t && Some((ev.1, ev.2)) != probe_key {
                    self.fail(&["C20"], &format!("`{}`: comparison called on an expired stored key", op.text()), &format!("only keys with expiration > {}", t), &format!("key {} exp {}", ev.1, ev.2));
                    break;
                }
            }
        }
        // ---- content
        self.out.eval(cp[0]);
        if !self.expiring {
            let e: Vec<(i64, i64)> = self.refm.m.iter().map(|(k, v)| (*k, v.1)).collect();
            let o: Vec<(i64, i64)> = post_entries.iter().map(|x| (x.1, x.3)).collect();
            if e != o { self.fail(&cp, &format!("stored entries after `{}`", op.text()), &format!("{:?}", e), &format!("{:?}", o)); }
        } else if self.real.state().map_or(true, |s| s != "-") {
            let t = self.refm.last_t;
            let live = self.refm.live(t);
            let stored_live: Vec<(i64, i64, i64)> = post_entries.iter().filter(|x| x.2 > t).map(|x| (x.1, x.2, x.3)).collect();
            if live != stored_live { self.fail(&cp, &format!("live entries (expiration > {}) after `{}`", t, op.text()), &format!("{:?}", live), &format!("{:?}", stored_live)); }
        }
        // handles table must stay valid across insertions and lookups (C17)
        if !self.is_list && !self.expiring && matches!(op.name.as_str(), "insert" | "get" | "fil" | "filby" | "isempty" | "validx" | "setidx") {
            self.out.eval("C17");
            let hs: Vec<(i64, u32)> = self.handles.iter().map(|(k, h)| (*k, *h)).collect();
            for (k, h) in hs {
                match post_entries.iter().find(|x| x.0 == h) {
                    Some(x) if x.1 == k => {}
                    other => { self.fail(&["C17"], &format!("handle {} taken for key {} after `{}`", h, k, op.text()), &format!("key{}", k), &format!("{:?}", other.map(|x| x.1))); break; }
                }
            }
        }
    }
}
